// shim: the real bluetoe security managers (legacy_security_manager, lesc_security_manager, security_manager)
// ::impl< Functions, Options... > for a few IO capability / OOB / bonding option sets, instantiated exactly as
// tests/security_manager/test_sm.hpp does (CRTP: the manager object also is the crypto tool box).
//
// No property logic here.  The environment (crypto tool box, RNG, IO callbacks, OOB callback, bond data base) is
// forwarded to extern "C" vf_env_*() functions that the harness defines (nondeterministic + ghost log).
// State getters/setters copy raw member bytes (shims are compiled with -fno-access-control).
//
// One source, three units: -DVF_SM_KIND=0 legacy manager, 1 LESC manager, 2 combined manager.
//
//  cfg | manager  | options
//   0  | legacy   | (none: no input, no output -> just works)
//   1  | legacy   | pairing_numeric_output                      (display only: passkey entry, peripheral displays)
//   2  | legacy   | pairing_keyboard                            (keyboard only: passkey entry, peripheral inputs)
//   3  | legacy   | oob_authentication_callback
//   4  | legacy   | bonding_data_base
//   5  | lesc     | (none)
//   6  | lesc     | pairing_numeric_output + pairing_yes_no     (numeric comparison, yes/no answered synchronously or later)
//   7  | lesc     | bonding_data_base
//   8  | combined | (none)
//   9  | combined | pairing_numeric_output + pairing_yes_no
//  10  | combined | bonding_data_base
//  11  | combined | oob_authentication_callback
#include <bluetoe/link_state.hpp>
#include <bluetoe/security_manager.hpp>
#include <bluetoe/address.hpp>
#include <new>

#ifndef VF_SM_KIND
#define VF_SM_KIND 0
#endif

extern "C" {
    // ---- crypto tool box / RNG (defined by the harness)
    void          vf_env_create_srand( std::uint8_t* out16 );
    void          vf_env_create_passkey( std::uint8_t* out16 );
    void          vf_env_c1( const std::uint8_t* k, const std::uint8_t* r, const std::uint8_t* p1, const std::uint8_t* p2, std::uint8_t* out16 );
    void          vf_env_s1( const std::uint8_t* k, const std::uint8_t* r1, const std::uint8_t* r2, std::uint8_t* out16 );
    int           vf_env_is_valid_public_key( const std::uint8_t* pk64 );
    void          vf_env_generate_keys( std::uint8_t* pub64, std::uint8_t* priv32 );
    void          vf_env_select_random_nonce( std::uint8_t* out16 );
    void          vf_env_p256( const std::uint8_t* priv32, const std::uint8_t* pub64, std::uint8_t* out32 );
    void          vf_env_f4( const std::uint8_t* u32, const std::uint8_t* v32, const std::uint8_t* x16, std::uint8_t z, std::uint8_t* out16 );
    void          vf_env_f5( const std::uint8_t* dh32, const std::uint8_t* n1, const std::uint8_t* n2, const std::uint8_t* a1_7, const std::uint8_t* a2_7, std::uint8_t* mackey16, std::uint8_t* ltk16 );
    void          vf_env_f6( const std::uint8_t* w16, const std::uint8_t* n1, const std::uint8_t* n2, const std::uint8_t* r16, const std::uint8_t* iocap3, const std::uint8_t* a1_7, const std::uint8_t* a2_7, std::uint8_t* out16 );
    std::uint32_t vf_env_g2( const std::uint8_t* u32, const std::uint8_t* v32, const std::uint8_t* x16, const std::uint8_t* y16 );
    // ---- IO capabilities / OOB
    void          vf_env_numeric_output( int pass_key );
    int           vf_env_passkey( void );
    void          vf_env_yes_no( void* response );                     /* may call vf_sm_yes_no_response() at once or later */
    int           vf_env_oob_data( const std::uint8_t* addr7, std::uint8_t* out16 );
    // ---- bond data base
    void          vf_env_db_create_new_bond( const std::uint8_t* addr7, std::uint8_t* key16, std::uint64_t* rand, std::uint16_t* ediv );
    void          vf_env_db_store_bond( const std::uint8_t* key16, std::uint64_t rand, std::uint16_t ediv, const std::uint8_t* addr7 );
    int           vf_env_db_find_key( std::uint16_t ediv, std::uint64_t rand, const std::uint8_t* addr7, std::uint8_t* key16 );
    void          vf_env_db_restore_cccds( void );
}

namespace {
    using bluetoe::details::uint128_t;
    using bluetoe::link_layer::device_address;

    // address as 6 bytes + 1 byte "is random"
    void addr7( const device_address& a, std::uint8_t* out )
    {
        std::copy( a.begin(), a.end(), out );
        out[ 6 ] = a.is_random() ? 1 : 0;
    }

    struct functions_t
    {
        device_address local_address() const { return local_addr_; }

        uint128_t create_srand()   { uint128_t r; vf_env_create_srand( r.data() ); return r; }
        uint128_t create_passkey() { uint128_t r; vf_env_create_passkey( r.data() ); return r; }

        uint128_t c1( const uint128_t& temp_key, const uint128_t& rand, const uint128_t& p1, const uint128_t& p2 ) const
        {
            uint128_t r; vf_env_c1( temp_key.data(), rand.data(), p1.data(), p2.data(), r.data() ); return r;
        }

        uint128_t s1( const uint128_t& temp_key, const uint128_t& srand, const uint128_t& mrand )
        {
            uint128_t r; vf_env_s1( temp_key.data(), srand.data(), mrand.data(), r.data() ); return r;
        }

        bool is_valid_public_key( const std::uint8_t* public_key ) const
        {
            return vf_env_is_valid_public_key( public_key ) != 0;
        }

        std::pair< bluetoe::details::ecdh_public_key_t, bluetoe::details::ecdh_private_key_t > generate_keys()
        {
            std::pair< bluetoe::details::ecdh_public_key_t, bluetoe::details::ecdh_private_key_t > r;
            vf_env_generate_keys( r.first.data(), r.second.data() );
            return r;
        }

        uint128_t select_random_nonce() { uint128_t r; vf_env_select_random_nonce( r.data() ); return r; }

        bluetoe::details::ecdh_shared_secret_t p256( const std::uint8_t* private_key, const std::uint8_t* public_key )
        {
            bluetoe::details::ecdh_shared_secret_t r; vf_env_p256( private_key, public_key, r.data() ); return r;
        }

        uint128_t f4( const std::uint8_t* u, const std::uint8_t* v, const std::array< std::uint8_t, 16 >& k, std::uint8_t z )
        {
            uint128_t r; vf_env_f4( u, v, k.data(), z, r.data() ); return r;
        }

        std::pair< uint128_t, uint128_t > f5( const bluetoe::details::ecdh_shared_secret_t dh_key, const uint128_t& nonce_central,
            const uint128_t& nonce_periperal, const device_address& addr_controller, const device_address& addr_peripheral )
        {
            std::uint8_t a1[ 7 ], a2[ 7 ];
            addr7( addr_controller, a1 ); addr7( addr_peripheral, a2 );
            std::pair< uint128_t, uint128_t > r;
            vf_env_f5( dh_key.data(), nonce_central.data(), nonce_periperal.data(), a1, a2, r.first.data(), r.second.data() );
            return r;
        }

        uint128_t f6( const uint128_t& key, const uint128_t& n1, const uint128_t& n2, const uint128_t& r,
            const bluetoe::details::io_capabilities_t& io_caps, const device_address& addr_controller, const device_address& addr_peripheral )
        {
            std::uint8_t a1[ 7 ], a2[ 7 ];
            addr7( addr_controller, a1 ); addr7( addr_peripheral, a2 );
            uint128_t res;
            vf_env_f6( key.data(), n1.data(), n2.data(), r.data(), io_caps.data(), a1, a2, res.data() );
            return res;
        }

        std::uint32_t g2( const std::uint8_t* u, const std::uint8_t* v, const uint128_t& x, const uint128_t& y )
        {
            return vf_env_g2( u, v, x.data(), y.data() );
        }

        device_address local_addr_;
    };

    // IO capability callbacks (numeric output, keyboard, yes/no) and OOB data provider: one object for all roles
    struct io_t
    {
        void sm_pairing_numeric_output( int pass_key ) { vf_env_numeric_output( pass_key ); }
        int  sm_pairing_passkey()                      { return vf_env_passkey(); }
        void sm_pairing_yes_no( bluetoe::pairing_yes_no_response& response ) { vf_env_yes_no( &response ); }

        std::pair< bool, bluetoe::oob_authentication_data_t > sm_oob_authentication_data( const device_address& address )
        {
            std::uint8_t a[ 7 ]; addr7( address, a );
            std::pair< bool, bluetoe::oob_authentication_data_t > r;
            r.first = vf_env_oob_data( a, r.second.data() ) != 0;
            return r;
        }
    } io;

    struct db_t
    {
        template < class Radio >
        bluetoe::details::longterm_key_t create_new_bond( Radio&, const device_address& mac )
        {
            std::uint8_t a[ 7 ]; addr7( mac, a );
            bluetoe::details::longterm_key_t k;
            vf_env_db_create_new_bond( a, k.longterm_key.data(), &k.rand, &k.ediv );
            return k;
        }

        template < class Connection >
        void store_bond( const bluetoe::details::longterm_key_t& key, const Connection& connection )
        {
            std::uint8_t a[ 7 ]; addr7( connection.remote_address(), a );
            vf_env_db_store_bond( key.longterm_key.data(), key.rand, key.ediv, a );
        }

        std::pair< bool, uint128_t > find_key( std::uint16_t ediv, std::uint64_t rand, const device_address& remote_address ) const
        {
            std::uint8_t a[ 7 ]; addr7( remote_address, a );
            std::pair< bool, uint128_t > r;
            r.first = vf_env_db_find_key( ediv, rand, a, r.second.data() ) != 0;
            return r;
        }

        template < class Connection >
        void restore_cccds( Connection& ) { vf_env_db_restore_cccds(); }
    } db;

    template < class Manager, class ... Options >
    struct sm_t : Manager::template impl< sm_t< Manager, Options... >, Options... >, functions_t
    {
        using impl_t = typename Manager::template impl< sm_t< Manager, Options... >, Options... >;
        using connection_data_t = typename impl_t::template channel_data_t< bluetoe::details::link_state >;

        using oob_t = typename bluetoe::details::find_by_meta_type< bluetoe::details::oob_authentication_callback_meta_type,
            Options..., bluetoe::details::no_oob_authentication >::type;

        connection_data_t conn;
    };

    using numeric_output_o = bluetoe::pairing_numeric_output< io_t, io >;
    using keyboard_o       = bluetoe::pairing_keyboard< io_t, io >;
    using yes_no_o         = bluetoe::pairing_yes_no< io_t, io >;
    using oob_o            = bluetoe::oob_authentication_callback< io_t, io >;
    using bonding_o        = bluetoe::bonding_data_base< db_t, db >;

#if VF_SM_KIND == 0
    sm_t< bluetoe::legacy_security_manager >                    m0;
    sm_t< bluetoe::legacy_security_manager, numeric_output_o >  m1;
    sm_t< bluetoe::legacy_security_manager, keyboard_o >        m2;
    sm_t< bluetoe::legacy_security_manager, oob_o >             m3;
    sm_t< bluetoe::legacy_security_manager, bonding_o >         m4;
    #define FOR_CFG( cfg, expr ) \
        switch ( cfg ) { \
        case 0:  { auto& m = m0; expr; } break; \
        case 1:  { auto& m = m1; expr; } break; \
        case 2:  { auto& m = m2; expr; } break; \
        case 3:  { auto& m = m3; expr; } break; \
        default: { auto& m = m4; expr; } break; \
        }
#elif VF_SM_KIND == 1
    sm_t< bluetoe::lesc_security_manager >                              m5;
    sm_t< bluetoe::lesc_security_manager, numeric_output_o, yes_no_o >  m6;
    sm_t< bluetoe::lesc_security_manager, bonding_o >                   m7;
    #define FOR_CFG( cfg, expr ) \
        switch ( cfg ) { \
        case 5:  { auto& m = m5; expr; } break; \
        case 6:  { auto& m = m6; expr; } break; \
        default: { auto& m = m7; expr; } break; \
        }
#else
    sm_t< bluetoe::security_manager >                              m8;
    sm_t< bluetoe::security_manager, numeric_output_o, yes_no_o >  m9;
    sm_t< bluetoe::security_manager, bonding_o >                   m10;
    sm_t< bluetoe::security_manager, oob_o >                       m11;
    #define FOR_CFG( cfg, expr ) \
        switch ( cfg ) { \
        case 8:  { auto& m = m8; expr; } break; \
        case 9:  { auto& m = m9; expr; } break; \
        case 10: { auto& m = m10; expr; } break; \
        default: { auto& m = m11; expr; } break; \
        }
#endif

    // ------------------------------------------------------------------------------------------------------
    // raw access to the members of the connection data / manager.  field ids are shared by all three kinds;
    // a field that does not exist in a kind yields nullptr.
    enum field_id {
        f_state = 0, f_legacy_algorithm = 1, f_lesc_algorithm = 2,
        f_c1_p1 = 3, f_c1_p2 = 4, f_srand = 5, f_mconfirm = 6, f_passkey = 7,
        f_key = 8,                       /* legacy: short term key; lesc/combined: long_term_key_ */
        f_local_private_key = 9, f_local_public_key = 10, f_remote_public_key = 11,
        f_local_nonce = 12, f_remote_nonce = 13, f_remote_io_caps = 14,
        f_pairing_status = 15,           /* combined manager: pairing_status_ (4 bytes) */
        f_remote_addr = 16,              /* device_address object: 6 bytes + bool */
        f_link_encrypted = 17, f_link_pairing_status = 18,
        f_pending_encryption_information = 19, f_pending_central_identification = 20,
        f_pending_key = 21, f_pending_key_rand = 22, f_pending_key_ediv = 23,
        f_oob_data_present = 30, f_oob_data = 31
    };

    struct span { void* p; std::size_t n; };
    #define SPAN( x ) span{ ( void* )&( x ), sizeof( x ) }

    template < class O >
    span base_field( bluetoe::details::security_connection_data_base< O >& c, int id )
    {
        switch ( id ) {
        case f_state:               return SPAN( c.state_ );
        case f_remote_addr:         return SPAN( c.remote_addr_ );
        case f_link_encrypted:      return SPAN( static_cast< bluetoe::details::link_state& >( c ).encrypted_ );
        case f_link_pairing_status: return SPAN( static_cast< bluetoe::details::link_state& >( c ).pairing_status_ );
        }
        return span{ nullptr, 0 };
    }

    template < class O >
    span conn_field( bluetoe::details::legacy_security_connection_data< O >& c, int id )
    {
        switch ( id ) {
        case f_legacy_algorithm:    return SPAN( c.algorithm_ );
        case f_c1_p1:               return SPAN( c.state_data_.pairing_state.c1_p1 );
        case f_c1_p2:               return SPAN( c.state_data_.pairing_state.c1_p2 );
        case f_srand:               return SPAN( c.state_data_.pairing_state.srand );
        case f_mconfirm:            return SPAN( c.state_data_.pairing_state.mconfirm );
        case f_passkey:             return SPAN( c.state_data_.pairing_state.passkey );
        case f_key:                 return SPAN( c.state_data_.completed_state.short_term_key );
        }
        return base_field( c, id );
    }

    template < class O >
    span conn_field( bluetoe::details::lesc_security_connection_data< O >& c, int id )
    {
        switch ( id ) {
        case f_lesc_algorithm:      return SPAN( c.algorithm_ );
        case f_key:                 return SPAN( c.long_term_key_ );
        case f_local_private_key:   return SPAN( c.local_private_key_ );
        case f_local_public_key:    return SPAN( c.local_public_key_ );
        case f_remote_public_key:   return SPAN( c.remote_public_key_ );
        case f_local_nonce:         return SPAN( c.local_nonce_ );
        case f_remote_nonce:        return SPAN( c.remote_nonce_ );
        case f_remote_io_caps:      return SPAN( c.remote_io_caps_ );
        }
        return base_field( c, id );
    }

    template < class O >
    span conn_field( bluetoe::details::security_connection_data< O >& c, int id )
    {
        switch ( id ) {
        case f_legacy_algorithm:    return SPAN( c.state_data_.legacy_state.algorithm );
        case f_lesc_algorithm:      return SPAN( c.state_data_.lesc_state.algorithm );
        case f_c1_p1:               return SPAN( c.state_data_.legacy_state.states.pairing_state.c1_p1 );
        case f_c1_p2:               return SPAN( c.state_data_.legacy_state.states.pairing_state.c1_p2 );
        case f_srand:               return SPAN( c.state_data_.legacy_state.states.pairing_state.srand );
        case f_mconfirm:            return SPAN( c.state_data_.legacy_state.states.pairing_state.mconfirm );
        case f_passkey:             return SPAN( c.state_data_.legacy_state.states.pairing_state.passkey );
        case f_key:                 return SPAN( c.long_term_key_ );
        case f_pairing_status:      return SPAN( c.pairing_status_ );
        case f_local_private_key:   return SPAN( c.state_data_.lesc_state.local_private_key_ );
        case f_local_public_key:    return SPAN( c.state_data_.lesc_state.local_public_key_ );
        case f_remote_public_key:   return SPAN( c.state_data_.lesc_state.remote_public_key_ );
        case f_local_nonce:         return SPAN( c.state_data_.lesc_state.local_nonce_ );
        case f_remote_nonce:        return SPAN( c.state_data_.lesc_state.remote_nonce_ );
        case f_remote_io_caps:      return SPAN( c.state_data_.lesc_state.remote_io_caps_ );
        }
        return base_field( c, id );
    }

    // members added by bonding_data_base<>::bonding_db_data_t
    template < class C >
    span bonding_field( bonding_o::bonding_db_data_t< C >& c, int id )
    {
        switch ( id ) {
        case f_pending_encryption_information: return SPAN( c.pending_encryption_information );
        case f_pending_central_identification: return SPAN( c.pending_central_identification );
        case f_pending_key:                    return SPAN( c.pending_key.longterm_key );
        case f_pending_key_rand:               return SPAN( c.pending_key.rand );
        case f_pending_key_ediv:               return SPAN( c.pending_key.ediv );
        }
        return span{ nullptr, 0 };
    }
    template < class C >
    span bonding_field( bluetoe::no_bonding_data_base::bonding_db_data_t< C >&, int )
    {
        return span{ nullptr, 0 };
    }

    // members of the manager itself (OOB data fetched by the last pairing request)
    template < class M >
    span manager_field( M& m, int id, bluetoe::details::no_oob_authentication* )
    {
        return span{ nullptr, 0 };
    }
    template < class M >
    span manager_field( M& m, int id, oob_o* )
    {
        oob_o& o = ( oob_o& )m;                  /* C-style cast: protected base */
        switch ( id ) {
        case f_oob_data_present: return SPAN( o.oob_data_present_ );
        case f_oob_data:         return SPAN( o.oob_data_ );
        }
        return span{ nullptr, 0 };
    }

    template < class M >
    span field( M& m, int id )
    {
        if ( id >= f_oob_data_present )
            return manager_field( m, id, ( typename M::oob_t* )nullptr );
        if ( id >= f_pending_encryption_information )
            return bonding_field( m.conn, id );
        return conn_field( m.conn, id );
    }
}

extern "C" {

// re-construct manager and connection data (as after a new connection)
__attribute__((noinline)) void vf_sm_reset( int cfg )
{
    FOR_CFG( cfg, { using T = typename std::remove_reference< decltype( m ) >::type; new ( &m ) T(); } );
}

__attribute__((noinline)) void vf_sm_set_addresses( int cfg, const std::uint8_t* local7, const std::uint8_t* remote7 )
{
    FOR_CFG( cfg, {
        m.local_addr_ = device_address( local7, local7[ 6 ] != 0 );
        m.conn.remote_connection_created( device_address( remote7, remote7[ 6 ] != 0 ) );
    } );
}

__attribute__((noinline)) void vf_sm_l2cap_input( int cfg, const std::uint8_t* in, std::size_t in_size, std::uint8_t* out, std::size_t* out_size )
{
    FOR_CFG( cfg, m.l2cap_input( in, in_size, out, *out_size, m.conn ) );
}

__attribute__((noinline)) void vf_sm_l2cap_output( int cfg, std::uint8_t* out, std::size_t* out_size )
{
    FOR_CFG( cfg, m.l2cap_output( out, *out_size, m.conn ) );
}

// what the link layer asks before it calls l2cap_output()
__attribute__((noinline)) int vf_sm_output_available( int cfg )
{
    bool r = false;
#if VF_SM_KIND == 0
    FOR_CFG( cfg, r = m.conn.outgoing_security_manager_data_available( m.conn ) );
#elif VF_SM_KIND == 1
    FOR_CFG( cfg, r = m.lesc_security_manager_output_available( m.conn ) );
#else
    FOR_CFG( cfg, r = m.lesc_security_manager_output_available( m.conn ) || m.conn.outgoing_security_manager_data_available( m.conn ) );
#endif
    return r;
}

// answer of the user to a yes/no request; `response` is the pointer handed to vf_env_yes_no()
__attribute__((noinline)) void vf_sm_yes_no_response( void* response, int yes )
{
    static_cast< bluetoe::pairing_yes_no_response* >( response )->yes_no_response( yes != 0 );
}

// the interface handed to the application by sm_pairing_yes_no() (nullptr: this manager has none)
#if VF_SM_KIND == 0
__attribute__((noinline)) void* vf_sm_yes_no_interface( int ) { return nullptr; }
#else
__attribute__((noinline)) void* vf_sm_yes_no_interface( int cfg )
{
    bluetoe::pairing_yes_no_response* r = nullptr;
    FOR_CFG( cfg, r = &m.conn );
    return r;
}
#endif

// the key lookup the link layer does when the central starts encryption (LL_ENC_REQ)
__attribute__((noinline)) int vf_sm_find_key( int cfg, std::uint16_t ediv, std::uint64_t rand, std::uint8_t* key16 )
{
    std::pair< bool, uint128_t > r;
    FOR_CFG( cfg, r = m.conn.find_key( ediv, rand ) );
    std::copy( r.second.begin(), r.second.end(), key16 );
    return r.first;
}

__attribute__((noinline)) int vf_sm_local_device_pairing_status( int cfg )
{
    int r = 0;
    FOR_CFG( cfg, r = static_cast< int >( m.conn.local_device_pairing_status() ) );
    return r;
}

__attribute__((noinline)) void vf_sm_set_encrypted( int cfg, int encrypted )
{
    FOR_CFG( cfg, m.conn.is_encrypted( encrypted != 0 ) );
}

// raw member access: returns the size of the field (0: no such field in this configuration)
__attribute__((noinline)) unsigned long vf_sm_field_get( int cfg, int id, std::uint8_t* buf, unsigned long cap )
{
    span s{ nullptr, 0 };
    FOR_CFG( cfg, s = field( m, id ) );
    if ( s.p && s.n <= cap )
        std::memcpy( buf, s.p, s.n );
    return s.n;
}

__attribute__((noinline)) unsigned long vf_sm_field_set( int cfg, int id, const std::uint8_t* buf, unsigned long n )
{
    span s{ nullptr, 0 };
    FOR_CFG( cfg, s = field( m, id ) );
    if ( s.p && s.n == n )
        std::memcpy( s.p, buf, s.n );
    return s.n;
}

}
