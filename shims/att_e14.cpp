/* att_e14 — server declarations with different advertising related options (DESIGN.md configuration A8) for property C14.
 *
 * Only instantiates and forwards: advertising_data() / scan_response_data() of the real bluetoe::server<>.
 * The expected content per configuration is a hand written table in harness/c14_adv.c.
 *
 *   cfg 0  no name option; services 0x1822 (16 bit) and one 128 bit service, GAP service appended by default;
 *          service lists generated from the services (16 bit: 0x1822, 0x1800; 128 bit: U1); auto scan response
 *   cfg 1  server_name of 36 characters (never fits), no_list_of_service_uuids
 *   cfg 2  server_name "Test", advertise_appearance + appearance::location_pod, list_of_16_bit_service_uuids with 12 UUIDs
 *          (longer than fit), list_of_128_bit_service_uuids<> (empty), peripheral_connection_interval_range< 0x0010, 0x0020 >
 *   cfg 3  server_name "Thermo", list_of_16_bit_service_uuids< 0x1809 >, list_of_128_bit_service_uuids< U1, U2 > (only one fits)
 *   cfg 4  no name, one 128 bit service, no GAP service, advertise_appearance (default appearance: unknown),
 *          peripheral_connection_interval_range<> (no specific values)
 *   cfg 5  custom_advertising_data (12 bytes) + custom_scan_response_data (9 bytes)
 *   cfg 6  runtime_custom_advertising_data + runtime_custom_scan_response_data
 *   cfg 7  server_name of 26 characters (fits exactly into 31 bytes behind the flags), lists generated from the services
 *   cfg 8  server_name of 10 characters, appearance option without advertise_appearance, lists generated from the services
 *          (16 bit: 0x180F, 0x1800; 128 bit: U1 — does not fit behind name and 16 bit list)
 */
#include <bluetoe/server.hpp>
#include <bluetoe/service.hpp>
#include <bluetoe/characteristic.hpp>
#include <bluetoe/custom_advertising.hpp>
#include <bluetoe/adv_service_list.hpp>
#include <bluetoe/appearance.hpp>
#include <bluetoe/peripheral_connection_interval_range.hpp>

static constexpr char e14_name_long[]  = "Bluetoe device with a very long name";
static constexpr char e14_name_test[]  = "Test";
static constexpr char e14_name_therm[] = "Thermo";
static constexpr char e14_name_26[]    = "abcdefghijklmnopqrstuvwxyz";
static constexpr char e14_name_10[]    = "0123456789";

static const std::uint8_t e14_custom_adv[] = {
    0x02, 0x01, 0x06,
    0x05, 0x09, 'A', 'B', 'C', 'D',
    0x02, 0x0A, 0x04
};

static const std::uint8_t e14_custom_scan[] = {
    0x04, 0xFF, 0x69, 0x02, 0x01,
    0x03, 0x03, 0x0F, 0x18
};

using e14_U1 = bluetoe::service_uuid< 0x00112233, 0x4455, 0x6677, 0x8899, 0xAABBCCDDEEFF >;
using e14_U2 = bluetoe::service_uuid< 0x10213243, 0x5465, 0x7687, 0x98A9, 0xBACBDCEDFE0F >;

std::uint8_t e14_value;

using e14_char = bluetoe::characteristic<
    bluetoe::characteristic_uuid16< 0xC000 >,
    bluetoe::bind_characteristic_value< std::uint8_t, &e14_value > >;

template < std::uint16_t U >
using e14_s16 = bluetoe::service< bluetoe::service_uuid16< U >, e14_char >;

using e14_s128 = bluetoe::service< e14_U1, e14_char >;

using e14_server0 = bluetoe::server<
    e14_s16< 0x1822 >,
    e14_s128
>;

using e14_server1 = bluetoe::server<
    e14_s16< 0x1822 >,
    bluetoe::server_name< e14_name_long >,
    bluetoe::no_list_of_service_uuids
>;

using e14_server2 = bluetoe::server<
    e14_s16< 0x1822 >,
    bluetoe::server_name< e14_name_test >,
    bluetoe::advertise_appearance,
    bluetoe::appearance::location_pod,
    bluetoe::list_of_16_bit_service_uuids<
        bluetoe::service_uuid16< 0x1801 >, bluetoe::service_uuid16< 0x1802 >, bluetoe::service_uuid16< 0x1803 >, bluetoe::service_uuid16< 0x1804 >,
        bluetoe::service_uuid16< 0x1805 >, bluetoe::service_uuid16< 0x1806 >, bluetoe::service_uuid16< 0x1807 >, bluetoe::service_uuid16< 0x1808 >,
        bluetoe::service_uuid16< 0x1809 >, bluetoe::service_uuid16< 0x180A >, bluetoe::service_uuid16< 0x180B >, bluetoe::service_uuid16< 0x180C >
    >,
    bluetoe::list_of_128_bit_service_uuids<>,
    bluetoe::peripheral_connection_interval_range< 0x0010, 0x0020 >
>;

using e14_server3 = bluetoe::server<
    e14_s16< 0x1809 >,
    bluetoe::server_name< e14_name_therm >,
    bluetoe::list_of_16_bit_service_uuids< bluetoe::service_uuid16< 0x1809 > >,
    bluetoe::list_of_128_bit_service_uuids< e14_U1, e14_U2 >
>;

using e14_server4 = bluetoe::server<
    e14_s128,
    bluetoe::no_gap_service_for_gatt_servers,
    bluetoe::advertise_appearance,
    bluetoe::peripheral_connection_interval_range<>
>;

using e14_server5 = bluetoe::server<
    e14_s16< 0x1822 >,
    bluetoe::server_name< e14_name_test >,
    bluetoe::custom_advertising_data< sizeof( e14_custom_adv ), e14_custom_adv >,
    bluetoe::custom_scan_response_data< sizeof( e14_custom_scan ), e14_custom_scan >
>;

using e14_server6 = bluetoe::server<
    e14_s16< 0x1822 >,
    bluetoe::runtime_custom_advertising_data,
    bluetoe::runtime_custom_scan_response_data
>;

using e14_server7 = bluetoe::server<
    e14_s16< 0x1822 >,
    bluetoe::server_name< e14_name_26 >
>;

using e14_server8 = bluetoe::server<
    e14_s16< 0x180F >,
    e14_s128,
    bluetoe::appearance::thermometer,
    bluetoe::server_name< e14_name_10 >
>;

/* one unit per configuration (E14_PART = cfg, selected by the property spec): keeps the generated C small */
#ifndef E14_PART
#error "E14_PART (0..8) selects the configuration"
#endif
#define E14_CAT_( a, b ) a ## b
#define E14_CAT( a, b ) E14_CAT_( a, b )
using e14_server_t = E14_CAT( e14_server, E14_PART );
static e14_server_t e14_srv;

/* cfg is checked by the harness against vf_e14_part() */
#define E14_FOR_CFG( cfg, expr ) { auto& s = e14_srv; (void)cfg; expr; }

extern "C" {

__attribute__((noinline)) int vf_e14_part( void ) { return E14_PART; }

__attribute__((noinline)) std::size_t vf_e14_advertising_data( int cfg, std::uint8_t* buffer, std::size_t buffer_size )
{
    std::size_t r = 0;
    E14_FOR_CFG( cfg, r = s.advertising_data( buffer, buffer_size ) );
    return r;
}

__attribute__((noinline)) std::size_t vf_e14_scan_response_data( int cfg, std::uint8_t* buffer, std::size_t buffer_size )
{
    std::size_t r = 0;
    E14_FOR_CFG( cfg, r = s.scan_response_data( buffer, buffer_size ) );
    return r;
}

/* cfg 6 only: what the application does at run time */
#if E14_PART == 6
__attribute__((noinline)) void vf_e14_set_runtime_advertising_data( const std::uint8_t* data, std::size_t size )
{
    e14_srv.set_runtime_custom_advertising_data( data, size );
}

__attribute__((noinline)) void vf_e14_set_runtime_scan_response_data( const std::uint8_t* data, std::size_t size )
{
    e14_srv.set_runtime_custom_scan_response_data( data, size );
}
#else
__attribute__((noinline)) void vf_e14_set_runtime_advertising_data( const std::uint8_t*, std::size_t ) {}
__attribute__((noinline)) void vf_e14_set_runtime_scan_response_data( const std::uint8_t*, std::size_t ) {}
#endif

__attribute__((noinline)) int vf_e14_data_changed( int cfg )
{
    bool r = false;
    E14_FOR_CFG( cfg, r = s.advertising_or_scan_response_data_has_been_changed() );
    return r;
}

}
