// shim: instantiates the real cycling speed and cadence control point implementation
// ( bluetoe::csc::details::implementation< UserHandler, Wheel, Crank, control_point_handler< ... > > as selected by the
// real csc::details::calculate_service<> for the option lists below ).
// No property logic here: wrappers only forward calls and copy raw member bytes.
#include <bluetoe/services/csc.hpp>

extern "C" {
    // environment, defined in the harness
    void          vf_csc_env_set_cumulative_wheel_revolutions( std::uint32_t new_value );
    std::uint32_t vf_csc_env_wheel_revolutions();
    std::uint16_t vf_csc_env_time();
}

namespace {
    struct user_handler
    {
        std::pair< std::uint32_t, std::uint16_t > cumulative_wheel_revolutions_and_time()
        {
            return std::pair< std::uint32_t, std::uint16_t >( vf_csc_env_wheel_revolutions(), vf_csc_env_time() );
        }

        std::pair< std::uint16_t, std::uint16_t > cumulative_crank_revolutions_and_time()
        {
            return std::pair< std::uint16_t, std::uint16_t >( static_cast< std::uint16_t >( vf_csc_env_wheel_revolutions() ), vf_csc_env_time() );
        }

        void set_cumulative_wheel_revolutions( std::uint32_t new_value )
        {
            vf_csc_env_set_cumulative_wheel_revolutions( new_value );
        }
    };

    // CFG 0: wheel + crank data, three sensor locations -> control_point_handler< sensor_position_handler< ... > >
    using impl0_t = bluetoe::csc::details::calculate_service<
        bluetoe::sensor_location::top_of_shoe,
        bluetoe::sensor_location::in_shoe,
        bluetoe::sensor_location::hip,
        bluetoe::csc::wheel_revolution_data_supported,
        bluetoe::csc::crank_revolution_data_supported,
        bluetoe::csc::handler< user_handler > >::service_implementation;

    // CFG 1: wheel data only, one (static) sensor location -> control_point_handler< no_sensor_position_handler >
    using impl1_t = bluetoe::csc::details::calculate_service<
        bluetoe::sensor_location::top_of_shoe,
        bluetoe::csc::wheel_revolution_data_supported,
        bluetoe::csc::handler< user_handler > >::service_implementation;

    // CFG 2: crank data only, two sensor locations (control point exists because of the sensor locations)
    using impl2_t = bluetoe::csc::details::calculate_service<
        bluetoe::sensor_location::top_of_shoe,
        bluetoe::sensor_location::left_crank,
        bluetoe::csc::crank_revolution_data_supported,
        bluetoe::csc::handler< user_handler > >::service_implementation;

    impl0_t i0;
    impl1_t i1;
    impl2_t i2;

    using loc3_t = bluetoe::csc::details::sensor_position_handler< std::tuple<
        bluetoe::sensor_location::top_of_shoe, bluetoe::sensor_location::in_shoe, bluetoe::sensor_location::hip > >;
    using loc2_t = bluetoe::csc::details::sensor_position_handler< std::tuple<
        bluetoe::sensor_location::top_of_shoe, bluetoe::sensor_location::left_crank > >;
}

#define FOR_CFG( cfg, expr ) \
    switch ( cfg ) { \
    case 0:  { auto& i = i0; expr; } break; \
    case 1:  { auto& i = i1; expr; } break; \
    default: { auto& i = i2; expr; } break; \
    }

extern "C" {

/* returns the ATT error code, *indicate = second member of the returned pair */
__attribute__((noinline)) int vf_csc_write_cp( int cfg, unsigned long size, const std::uint8_t* value, int* indicate )
{
    std::pair< std::uint8_t, bool > r( 0, false );
    FOR_CFG( cfg, r = i.csc_write_control_point( size, value ) );
    *indicate = r.second;
    return r.first;
}

__attribute__((noinline)) int vf_csc_read_cp( int cfg, unsigned long read_size, std::uint8_t* out, unsigned long* out_size )
{
    std::size_t   s = *out_size;
    std::uint8_t  r = 0;
    FOR_CFG( cfg, r = i.csc_read_control_point( read_size, out, s ) );
    *out_size = s;
    return r;
}

__attribute__((noinline)) int vf_csc_get_in_progress( int cfg )
{
    std::uint8_t r = 0;
    FOR_CFG( cfg, std::memcpy( &r, &i.procedure_in_progress_, 1 ) );
    return r;
}

__attribute__((noinline)) int vf_csc_get_opcode( int cfg )
{
    std::uint8_t r = 0;
    FOR_CFG( cfg, r = i.current_opcode_ );
    return r;
}

__attribute__((noinline)) void vf_csc_set_state( int cfg, int in_progress, int opcode, int current_pos, int requested_pos )
{
    FOR_CFG( cfg, i.procedure_in_progress_ = in_progress != 0; i.current_opcode_ = static_cast< std::uint8_t >( opcode ) );
    switch ( cfg ) {
    case 0: static_cast< loc3_t& >( i0 ).current_position_ = current_pos; static_cast< loc3_t& >( i0 ).requested_position_ = requested_pos; break;
    case 2: static_cast< loc2_t& >( i2 ).current_position_ = current_pos; static_cast< loc2_t& >( i2 ).requested_position_ = requested_pos; break;
    default: break;
    }
}

}
