// shim ll_c: the real bluetoe::link_layer::link_layer< server, stub scheduled radio, advertising options... > for C24 / C25.
// One option set per unit (-DVFC_CFG=n, see ll_c_api.h).  No property logic: the wrappers forward to the real member functions
// and copy raw members in / out.  The radio (schedule_advertisment, schedule_connection_event, access address) is forwarded to
// extern "C" functions that the harness defines.
#include <bluetoe/link_layer.hpp>
#include <bluetoe/ll_data_pdu_buffer.hpp>
#include <bluetoe/server.hpp>
#include "ll_c_api.h"

#ifndef VFC_CFG
#define VFC_CFG 0
#endif

namespace vfc {
    using namespace bluetoe::link_layer;

    template < std::size_t TransmitSize, std::size_t ReceiveSize, typename CallBack >
    class radio : public ll_data_pdu_buffer< TransmitSize, ReceiveSize, radio< TransmitSize, ReceiveSize, CallBack > >
    {
    public:
        void schedule_advertisment( unsigned channel, const write_buffer& adv, const write_buffer& rsp, delta_time when, const read_buffer& rx )
        {
            vfc_env_sched_adv( channel, adv.buffer, adv.size, rsp.buffer, rsp.size, when.usec(), rx.buffer, rx.size );
        }
        delta_time schedule_connection_event( unsigned channel, delta_time start, delta_time end, delta_time interval )
        {
            return delta_time( vfc_env_sched_evt( channel, start.usec(), end.usec(), interval.usec() ) );
        }
        std::pair< bool, delta_time > disarm_connection_event() { return { false, delta_time() }; }
        bool schedule_synchronized_user_timer( delta_time, delta_time ) { return false; }
        bool cancel_synchronized_user_timer() { return false; }
        void wake_up() {}
        void request_event_cancelation() {}
        void run() {}
        void set_access_address_and_crc_init( std::uint32_t aa, std::uint32_t crc ) { vfc_env_access_address( aa, crc ); }
        std::uint32_t static_random_address_seed() const { return 0x47110815; }
        void radio_set_phy( phy_ll_encoding::phy_ll_encoding_t, phy_ll_encoding::phy_ll_encoding_t ) {}
        void increment_receive_packet_counter() {}
        void increment_transmit_packet_counter() {}
        struct lock_guard { lock_guard() {} };
        static constexpr std::size_t radio_maximum_white_list_entries = 0;      // => the software white list is used
        static constexpr bool hardware_supports_encryption = false;
        static constexpr bool hardware_supports_2mbit = false;
        static constexpr bool hardware_supports_synchronized_user_timer = false;
        static constexpr unsigned connection_event_setup_time_us = 100u;
    };
}

static std::uint8_t vfc_value = 0;
using server_t = bluetoe::server<
    bluetoe::service< bluetoe::service_uuid16< 0x1234 >,
        bluetoe::characteristic< bluetoe::characteristic_uuid16< 0x2A19 >, bluetoe::bind_characteristic_value< std::uint8_t, &vfc_value > > > >;

namespace bl = bluetoe::link_layer;

#if VFC_CFG == 0
    using ll_t = bl::link_layer< server_t, vfc::radio,
        bl::variable_advertising_channel_map, bl::no_auto_start_advertising, bl::variable_advertising_interval, bl::white_list< 3 > >;
    #define VFC_VARMAP 1
    #define VFC_NOAUTO 1
    #define VFC_VARINT 1
    #define VFC_WL 1
#elif VFC_CFG == 1
    using ll_t = bl::link_layer< server_t, vfc::radio,
        bl::variable_advertising_channel_map, bl::no_auto_start_advertising, bl::advertising_interval< 30 >, bl::white_list< 3 >,
        bl::connectable_undirected_advertising, bl::connectable_directed_advertising,
        bl::scannable_undirected_advertising, bl::non_connectable_undirected_advertising >;
    #define VFC_VARMAP 1
    #define VFC_NOAUTO 1
    #define VFC_MULTI 1
    #define VFC_DIRECTED 1
    #define VFC_WL 1
#elif VFC_CFG == 2
    using ll_t = bl::link_layer< server_t, vfc::radio, bl::connectable_directed_advertising, bl::white_list< 3 > >;
    #define VFC_DIRECTED 1
    #define VFC_WL 1
#elif VFC_CFG == 3
    using ll_t = bl::link_layer< server_t, vfc::radio, bl::scannable_undirected_advertising, bl::white_list< 3 > >;
    #define VFC_WL 1
#elif VFC_CFG == 4
    using ll_t = bl::link_layer< server_t, vfc::radio, bl::non_connectable_undirected_advertising, bl::white_list< 3 > >;
    #define VFC_WL 1
#else
    using ll_t = bl::link_layer< server_t, vfc::radio >;
#endif

static ll_t ll;

namespace {
    using bl::device_address;
    using bl::read_buffer;

    // base class access (the exact advertiser type is deduced)
    template < class A >
    bl::no_auto_start_advertising::impl< A >& noauto( bl::no_auto_start_advertising::impl< A >& x ) { return x; }

    template < class L, class A >
    bl::connectable_directed_advertising::impl< L, A >& directed( bl::connectable_directed_advertising::impl< L, A >& x ) { return x; }
}

extern "C" {

__attribute__((noinline)) void vfc_run()                                    { ll.run(); }
__attribute__((noinline)) void vfc_adv_timeout()                            { ll.adv_timeout(); }
__attribute__((noinline)) void vfc_adv_received( std::uint8_t* pdu, std::size_t n ) { ll.adv_received( read_buffer{ pdu, n } ); }

__attribute__((noinline)) int vfc_handle_adv_receive( std::uint8_t* pdu, std::size_t n, std::uint8_t* remote6, int* remote_random )
{
    device_address remote;
    const bool r = ll.handle_adv_receive( read_buffer{ pdu, n }, remote );
    std::copy( remote.begin(), remote.end(), remote6 );
    *remote_random = remote.is_random();
    return r;
}

__attribute__((noinline)) int vfc_is_valid_connect_request( std::uint8_t* pdu, std::size_t n )
{
#ifdef VFC_MULTI
    return ll.is_valid_connect_request( read_buffer{ pdu, n }, ll.selected_ );
#else
    return ll.is_valid_connect_request( read_buffer{ pdu, n } );
#endif
}

__attribute__((noinline)) void vfc_start_advertising()
{
#ifdef VFC_NOAUTO
    ll.start_advertising();
#endif
}
__attribute__((noinline)) void vfc_start_advertising_count( unsigned count )
{
#ifdef VFC_NOAUTO
    ll.start_advertising( count );
#endif
}
__attribute__((noinline)) void vfc_stop_advertising()
{
#ifdef VFC_NOAUTO
    ll.stop_advertising();
#endif
}
__attribute__((noinline)) void vfc_add_channel( unsigned channel )
{
#ifdef VFC_VARMAP
    ll.add_channel_to_advertising_channel_map( channel );
#endif
}
__attribute__((noinline)) void vfc_remove_channel( unsigned channel )
{
#ifdef VFC_VARMAP
    ll.remove_channel_from_advertsing_channel_map( channel );
#endif
}
__attribute__((noinline)) void vfc_interval_ms( unsigned ms )
{
#ifdef VFC_VARINT
    ll.advertising_interval_ms( ms );
#endif
}
__attribute__((noinline)) void vfc_change_advertising( int type )
{
#ifdef VFC_MULTI
    switch ( type )
    {
    case VFC_TYPE_CONN_UNDIRECTED:  ll.change_advertising< bl::connectable_undirected_advertising >(); break;
    case VFC_TYPE_CONN_DIRECTED:    ll.change_advertising< bl::connectable_directed_advertising >(); break;
    case VFC_TYPE_SCANNABLE:        ll.change_advertising< bl::scannable_undirected_advertising >(); break;
    default:                        ll.change_advertising< bl::non_connectable_undirected_advertising >(); break;
    }
#endif
}
__attribute__((noinline)) void vfc_directed_address( const std::uint8_t* addr6, int is_random )
{
#ifdef VFC_DIRECTED
    ll.directed_advertising_address( device_address( addr6, is_random != 0 ) );
#endif
}
__attribute__((noinline)) void vfc_get_directed( std::uint8_t* addr6, int* is_random )
{
#ifdef VFC_DIRECTED
    const device_address& a = directed( ll ).addr_;
    std::copy( a.begin(), a.end(), addr6 );
    *is_random = a.is_random();
#endif
}
__attribute__((noinline)) void vfc_set_local_address( const std::uint8_t* addr6, int is_random )
{
    ll.local_address( device_address( addr6, is_random != 0 ) );
}
__attribute__((noinline)) void vfc_get_local_address( std::uint8_t* addr6, int* is_random )
{
    const device_address& a = ll.local_address();
    std::copy( a.begin(), a.end(), addr6 );
    *is_random = a.is_random();
}

__attribute__((noinline)) void vfc_get_adv( std::uint32_t* f )
{
    for ( int i = 0; i != VFC_NADV; ++i )
        f[ i ] = 0;

    f[ VFC_LL_STATE ]       = static_cast< std::uint32_t >( ll.state_ );
    f[ VFC_CH_INDEX ]       = ll.current_channel_index_;
    f[ VFC_PERTURBATION ]   = ll.adv_perturbation_;
#ifdef VFC_VARMAP
    f[ VFC_CH_MAP ]         = ll.map_;
#endif
#ifdef VFC_NOAUTO
    f[ VFC_NA_STARTED ]     = noauto( ll ).started_;
    f[ VFC_NA_ENABLED ]     = noauto( ll ).enabled_;
    f[ VFC_NA_COUNT ]       = noauto( ll ).count_;
#endif
#ifdef VFC_MULTI
    f[ VFC_SELECTED ]       = ll.selected_;
    f[ VFC_PROPOSAL ]       = ll.proposal_;
#endif
#ifdef VFC_DIRECTED
    f[ VFC_DIR_VALID ]      = directed( ll ).addr_valid_;
    f[ VFC_DIR_STARTED ]    = directed( ll ).started_;
#endif
#ifdef VFC_VARINT
    f[ VFC_INTERVAL_US ]    = static_cast< bl::variable_advertising_interval& >( ll ).interval_.usec();
#endif
}

__attribute__((noinline)) void vfc_set_adv( const std::uint32_t* f )
{
    ll.state_                   = static_cast< ll_t::state >( f[ VFC_LL_STATE ] );
    ll.current_channel_index_   = f[ VFC_CH_INDEX ];
    ll.adv_perturbation_        = f[ VFC_PERTURBATION ];
#ifdef VFC_VARMAP
    ll.map_                     = f[ VFC_CH_MAP ];
#endif
#ifdef VFC_NOAUTO
    noauto( ll ).started_       = f[ VFC_NA_STARTED ] != 0;
    noauto( ll ).enabled_       = f[ VFC_NA_ENABLED ] != 0;
    noauto( ll ).count_         = f[ VFC_NA_COUNT ];
#endif
#ifdef VFC_MULTI
    ll.selected_                = f[ VFC_SELECTED ];
    ll.proposal_                = f[ VFC_PROPOSAL ];
#endif
#ifdef VFC_DIRECTED
    directed( ll ).addr_valid_  = f[ VFC_DIR_VALID ] != 0;
    directed( ll ).started_     = f[ VFC_DIR_STARTED ] != 0;
#endif
}

__attribute__((noinline)) void vfc_wl_set_raw( unsigned long free_size, int conn_filter, int scan_filter )
{
#ifdef VFC_WL
    ll.free_size_ = free_size; ll.connection_filter_ = conn_filter != 0; ll.scan_filter_ = scan_filter != 0;
#endif
}
__attribute__((noinline)) void vfc_wl_set_entry( unsigned i, const std::uint8_t* addr6, int is_random )
{
#ifdef VFC_WL
    ll.addresses_[ i ] = device_address( addr6, is_random != 0 );
#endif
}
__attribute__((noinline)) int vfc_wl_add( const std::uint8_t* addr6, int is_random )
{
#ifdef VFC_WL
    return ll.add_to_white_list( device_address( addr6, is_random != 0 ) );
#else
    return 0;
#endif
}
__attribute__((noinline)) void vfc_wl_conn_filter( int on )
{
#ifdef VFC_WL
    ll.connection_request_filter( on != 0 );
#endif
}
__attribute__((noinline)) void vfc_wl_scan_filter( int on )
{
#ifdef VFC_WL
    ll.scan_request_filter( on != 0 );
#endif
}
__attribute__((noinline)) int vfc_conn_in_filter( const std::uint8_t* addr6, int is_random )
{
    return ll.is_connection_request_in_filter( device_address( addr6, is_random != 0 ) );
}
__attribute__((noinline)) int vfc_scan_in_filter( const std::uint8_t* addr6, int is_random )
{
    return ll.is_scan_request_in_filter( device_address( addr6, is_random != 0 ) );
}

}
