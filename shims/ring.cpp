// shim: the real bluetoe::details::ring<S,int> (single producer / single consumer ring) for S = 1, 2, 3.
// Wrappers only forward; with -inline-threshold the whole try_push/try_pop body is inside the wrapper,
// so the resumable rendering (ll2c) has one yield point per memory access of the real code.
#include <bluetoe/ring.hpp>

namespace {
    bluetoe::details::ring< 1, int > r1;
    bluetoe::details::ring< 2, int > r2;
    bluetoe::details::ring< 3, int > r3;
}

#define RING_API( N ) \
    extern "C" __attribute__((noinline)) int ring##N##_push( int v ) { return r##N.try_push( v ); } \
    extern "C" __attribute__((noinline)) int ring##N##_pop( int* out ) { return r##N.try_pop( *out ); } \
    extern "C" __attribute__((noinline)) void ring##N##_reset() { r##N.read_ptr_.store( 0 ); r##N.write_ptr_.store( 0 ); } \
    extern "C" __attribute__((noinline)) void ring##N##_set( int rd, int wr ) { r##N.read_ptr_.store( rd ); r##N.write_ptr_.store( wr ); } \
    extern "C" __attribute__((noinline)) void ring##N##_get( int* rd, int* wr ) { *rd = r##N.read_ptr_.load(); *wr = r##N.write_ptr_.load(); }

RING_API( 1 )
RING_API( 2 )
RING_API( 3 )
