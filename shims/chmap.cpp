// shim: the real bluetoe::link_layer::channel_map (bluetoe/link_layer/channel_map.cpp is linked unchanged).
#include <bluetoe/channel_map.hpp>

namespace {
    bluetoe::link_layer::channel_map cm;
}

extern "C" {
__attribute__((noinline)) int  cm_reset( const std::uint8_t* map, unsigned hop ) { return cm.reset( map, hop ); }
__attribute__((noinline)) int  cm_reset_map( const std::uint8_t* map )           { return cm.reset( map ); }
__attribute__((noinline)) unsigned cm_data_channel( unsigned index )             { return cm.data_channel( index ); }
// the private table builder used by reset() (pure function of the map), exposed for the lemma decomposition of C20
__attribute__((noinline)) unsigned cm_build_used( const std::uint8_t* map, std::uint8_t* used ) { return cm.build_used_channel_map( map, used ); }
// raw state access (private members; -fno-access-control)
__attribute__((noinline)) void cm_set_raw( unsigned index, std::uint8_t v )      { cm.map_[ index ] = v; }
__attribute__((noinline)) void cm_set_hop( std::uint8_t hop )                    { cm.hop_ = hop; }
}
