/* att_a — real bluetoe::server<> instantiations for C01 (ATT memory safety / framing) and C08 (ATT MTU).
 *
 * Only instantiates and forwards.  State setters/getters copy raw member bytes (client MTU, CCCD bytes, write queue,
 * bound values).  The environment (user read/write handlers of handler based characteristics, the link layer's
 * notification callback) is declared here and defined by the harness.
 *
 *   cfg 0  A1  two services (128 bit + 16 bit UUID), bound values of 1/4/20 bytes, const bound value, fixed value,
 *              cstring value, user description, user descriptor, GAP service appended by default; MTU 23, no write queue
 *   cfg 1  A2  fixed handles with gaps (attribute_handle<> on service and characteristic, attribute_handles<> with
 *              and without CCCD), no GAP service
 *   cfg 2  A5  shared_write_queue<32> + max_mtu_size<65>, 40 byte value with notify (CCCD), 1 byte value, blob write handler
 *   cfg 3  A6  five notify/indicate characteristics (CCCD bits cross a byte boundary), values of 1..30 bytes
 *   cfg 4  A7  handler based characteristics (free read/write (blob) handlers, mixin handlers, no_read_access + notify,
 *              write only, write_without_response)
 *   cfg 5      as cfg 0 but max_mtu_size<40> (C08 only)
 *   cfg 6      small server: one service (128 bit UUID), 4 byte value with 128 bit UUID + notify, 20 byte value; for the requests
 *              that walk the attribute table (Find Information, Read By Type, Read Multiple), which are out of reach on the larger ones
 */
#include <bluetoe/server.hpp>
#include <bluetoe/service.hpp>
#include <bluetoe/characteristic.hpp>
#include <bluetoe/gatt_options.hpp>
#include <bluetoe/link_state.hpp>
#include <bluetoe/mixin.hpp>
#include <bluetoe/descriptor.hpp>

/* ---- environment, defined by the harness */
extern "C" std::uint8_t vf_env_read( int id, std::size_t offset, std::size_t read_size, std::uint8_t* out_buffer, std::size_t* out_size );
extern "C" std::uint8_t vf_env_write( int id, std::size_t offset, std::size_t write_size, const std::uint8_t* value );
extern "C" int          vf_env_notification_cb( int type );

/* ---- values */
std::uint8_t        val_v1;
std::uint32_t       val_v4;
std::uint8_t        val_v20[ 20 ];
std::uint8_t        val_v40[ 40 ];
std::uint8_t        val_v30[ 30 ];
std::uint16_t       val_v2;
std::uint8_t        val_v3[ 3 ];
const std::uint16_t val_const = 0x4711;

static const char         name_a[]  = "Temperature";
static const char         name_b[]  = "x";
static const char         text_a[]  = "Hello, this is a cstring value that is longer than the default MTU";
static const std::uint8_t desc_a[]  = { 0x01, 0x02, 0x03, 0x04, 0x05 };
static const std::uint8_t blob_a[]  = { 0x10, 0x11, 0x12, 0x13, 0x14, 0x15, 0x16 };

/* ---- handlers: forward to the environment */
static std::uint8_t rd_blob( std::size_t offset, std::size_t read_size, std::uint8_t* out, std::size_t& out_size ) { return vf_env_read( 0, offset, read_size, out, &out_size ); }
static std::uint8_t rd_plain( std::size_t read_size, std::uint8_t* out, std::size_t& out_size )                   { return vf_env_read( 1, 0, read_size, out, &out_size ); }
static std::uint8_t rd_ntf( std::size_t read_size, std::uint8_t* out, std::size_t& out_size )                     { return vf_env_read( 2, 0, read_size, out, &out_size ); }
static std::uint8_t wr_blob( std::size_t offset, std::size_t write_size, const std::uint8_t* value )              { return vf_env_write( 3, offset, write_size, value ); }
static std::uint8_t wr_raw( std::size_t write_size, const std::uint8_t* value )                                   { return vf_env_write( 4, 0, write_size, value ); }
static std::uint8_t wr_cmd( std::size_t write_size, const std::uint8_t* value )                                   { return vf_env_write( 5, 0, write_size, value ); }
static std::uint8_t wr_q( std::size_t offset, std::size_t write_size, const std::uint8_t* value )                 { return vf_env_write( 6, offset, write_size, value ); }

struct mix_t {
    std::uint8_t read_handler( std::size_t read_size, std::uint8_t* out, std::size_t& out_size ) { return vf_env_read( 7, 0, read_size, out, &out_size ); }
    std::uint8_t write_handler( std::size_t write_size, const std::uint8_t* value )              { return vf_env_write( 8, 0, write_size, value ); }
};

/* ---- configurations */
template < typename ... MTU >
using cfg0_server = bluetoe::server<
    bluetoe::service<
        bluetoe::service_uuid< 0x8C8B4094, 0x0DE2, 0x499F, 0xA28A, 0x4EED5BC73CA9 >,
        bluetoe::characteristic<
            bluetoe::characteristic_name< name_a >,
            bluetoe::bind_characteristic_value< std::uint8_t, &val_v1 >
        >,
        bluetoe::characteristic<
            bluetoe::characteristic_uuid< 0x8C8B4094, 0x0DE2, 0x499F, 0xA28A, 0x4EED5BC73CAB >,
            bluetoe::bind_characteristic_value< std::uint32_t, &val_v4 >,
            bluetoe::descriptor< 0x2904, desc_a, sizeof( desc_a ) >
        >,
        bluetoe::characteristic<
            bluetoe::characteristic_uuid16< 0xFF01 >,
            bluetoe::bind_characteristic_value< decltype( val_v20 ), &val_v20 >,
            bluetoe::write_without_response
        >
    >,
    bluetoe::service<
        bluetoe::service_uuid16< 0x180F >,
        bluetoe::characteristic<
            bluetoe::characteristic_uuid16< 0x2A19 >,
            bluetoe::fixed_uint8_value< 0x42 >
        >,
        bluetoe::characteristic<
            bluetoe::characteristic_uuid16< 0xFF02 >,
            bluetoe::cstring_value< text_a >,
            bluetoe::characteristic_name< name_b >
        >,
        bluetoe::characteristic<
            bluetoe::characteristic_uuid16< 0xFF03 >,
            bluetoe::bind_characteristic_value< const std::uint16_t, &val_const >
        >,
        bluetoe::characteristic<
            bluetoe::characteristic_uuid< 0x8C8B4094, 0x0DE2, 0x499F, 0xA28A, 0x4EED5BC73CAF >,
            bluetoe::fixed_blob_value< blob_a, sizeof( blob_a ) >
        >
    >,
    MTU...
>;

using cfg1_server = bluetoe::server<
    bluetoe::no_gap_service_for_gatt_servers,
    bluetoe::service<
        bluetoe::attribute_handle< 0x020 >,
        bluetoe::service_uuid16< 0x0816 >,
        bluetoe::characteristic<
            bluetoe::characteristic_uuid16< 0x0816 >,
            bluetoe::attribute_handles< 0x50, 0x52 >,
            bluetoe::bind_characteristic_value< std::uint8_t, &val_v1 >
        >,
        bluetoe::characteristic<
            bluetoe::characteristic_uuid16< 0x0817 >,
            bluetoe::attribute_handles< 0x60, 0x62, 0x64 >,
            bluetoe::bind_characteristic_value< std::uint16_t, &val_v2 >,
            bluetoe::notify
        >
    >,
    bluetoe::service<
        bluetoe::service_uuid< 0x8C8B4094, 0x0DE2, 0x499F, 0xA28A, 0x4EED5BC73CA9 >,
        bluetoe::characteristic<
            bluetoe::characteristic_uuid16< 0x0816 >,
            bluetoe::bind_characteristic_value< decltype( val_v3 ), &val_v3 >,
            bluetoe::indicate
        >,
        bluetoe::characteristic<
            bluetoe::attribute_handle< 0x100 >,
            bluetoe::characteristic_uuid< 0x8C8B4094, 0x0DE2, 0x499F, 0xA28A, 0x4EED5BC73CAA >,
            bluetoe::bind_characteristic_value< std::uint32_t, &val_v4 >
        >,
        bluetoe::characteristic<
            bluetoe::characteristic_uuid16< 0x0818 >,
            bluetoe::attribute_handles< 0x200, 0x201 >,
            bluetoe::fixed_uint8_value< 0x45 >
        >
    >
>;

using cfg2_server = bluetoe::server<
    bluetoe::shared_write_queue< 32 >,
    bluetoe::max_mtu_size< 65 >,
    bluetoe::no_gap_service_for_gatt_servers,
    bluetoe::service<
        bluetoe::service_uuid< 0x8C8B4094, 0x0DE2, 0x499F, 0xA28A, 0x4EED5BC73CA9 >,
        bluetoe::characteristic<
            bluetoe::characteristic_uuid16< 0xFF10 >,
            bluetoe::bind_characteristic_value< decltype( val_v40 ), &val_v40 >,
            bluetoe::notify
        >,
        bluetoe::characteristic<
            bluetoe::characteristic_uuid16< 0xFF11 >,
            bluetoe::bind_characteristic_value< std::uint8_t, &val_v1 >
        >,
        bluetoe::characteristic<
            bluetoe::characteristic_uuid16< 0xFF12 >,
            bluetoe::free_write_blob_handler< &wr_q >
        >,
        bluetoe::characteristic<
            bluetoe::characteristic_uuid16< 0xFF13 >,
            bluetoe::cstring_value< text_a >
        >
    >
>;

using cfg3_server = bluetoe::server<
    bluetoe::no_gap_service_for_gatt_servers,
    bluetoe::service<
        bluetoe::service_uuid16< 0x1801 >,
        bluetoe::characteristic<
            bluetoe::characteristic_uuid16< 0xFF20 >,
            bluetoe::bind_characteristic_value< std::uint8_t, &val_v1 >,
            bluetoe::notify
        >,
        bluetoe::characteristic<
            bluetoe::characteristic_uuid16< 0xFF21 >,
            bluetoe::bind_characteristic_value< std::uint32_t, &val_v4 >,
            bluetoe::indicate
        >,
        bluetoe::characteristic<
            bluetoe::characteristic_uuid16< 0xFF22 >,
            bluetoe::bind_characteristic_value< decltype( val_v20 ), &val_v20 >,
            bluetoe::notify, bluetoe::indicate
        >
    >,
    bluetoe::service<
        bluetoe::service_uuid< 0x8C8B4094, 0x0DE2, 0x499F, 0xA28A, 0x4EED5BC73CA9 >,
        bluetoe::characteristic<
            bluetoe::characteristic_uuid16< 0xFF23 >,
            bluetoe::bind_characteristic_value< decltype( val_v30 ), &val_v30 >,
            bluetoe::notify
        >,
        bluetoe::characteristic<
            bluetoe::characteristic_uuid16< 0xFF24 >,
            bluetoe::bind_characteristic_value< std::uint16_t, &val_v2 >,
            bluetoe::indicate, bluetoe::no_write_access
        >
    >
>;

using cfg4_server = bluetoe::server<
    bluetoe::no_gap_service_for_gatt_servers,
    bluetoe::mixin< mix_t >,
    bluetoe::service<
        bluetoe::service_uuid16< 0x1802 >,
        bluetoe::characteristic<
            bluetoe::characteristic_uuid16< 0xFF30 >,
            bluetoe::free_read_blob_handler< &rd_blob >,
            bluetoe::free_write_blob_handler< &wr_blob >
        >,
        bluetoe::characteristic<
            bluetoe::characteristic_uuid16< 0xFF31 >,
            bluetoe::free_read_handler< &rd_plain >
        >,
        bluetoe::characteristic<
            bluetoe::characteristic_uuid16< 0xFF32 >,
            bluetoe::free_read_handler< &rd_ntf >,
            bluetoe::no_read_access,
            bluetoe::notify
        >,
        bluetoe::characteristic<
            bluetoe::characteristic_uuid16< 0xFF33 >,
            bluetoe::free_raw_write_handler< &wr_raw >
        >,
        bluetoe::characteristic<
            bluetoe::characteristic_uuid16< 0xFF34 >,
            bluetoe::free_raw_write_handler< &wr_cmd >,
            bluetoe::only_write_without_response
        >,
        bluetoe::characteristic<
            bluetoe::characteristic_uuid16< 0xFF35 >,
            bluetoe::mixin_read_handler< mix_t, &mix_t::read_handler >,
            bluetoe::mixin_write_handler< mix_t, &mix_t::write_handler >
        >
    >
>;

using cfg6_server = bluetoe::server<
    bluetoe::no_gap_service_for_gatt_servers,
    bluetoe::service<
        bluetoe::service_uuid< 0x8C8B4094, 0x0DE2, 0x499F, 0xA28A, 0x4EED5BC73CA9 >,
        bluetoe::characteristic<
            bluetoe::characteristic_uuid< 0x8C8B4094, 0x0DE2, 0x499F, 0xA28A, 0x4EED5BC73CAB >,
            bluetoe::bind_characteristic_value< std::uint32_t, &val_v4 >,
            bluetoe::notify
        >,
        bluetoe::characteristic<
            bluetoe::characteristic_uuid16< 0xFF01 >,
            bluetoe::bind_characteristic_value< decltype( val_v20 ), &val_v20 >
        >
    >
>;

/* ---- generic access to one configuration (server and connection objects are plain globals) */
template < class Server >
using conn_of = typename Server::template channel_data_t< bluetoe::details::link_state >;

template < class Server, Server& server, conn_of< Server >& conn >
struct cfg
{
    static bool cb( const bluetoe::details::notification_data&, void*, bluetoe::details::notification_type type )
    {
        return vf_env_notification_cb( static_cast< int >( type ) ) != 0;
    }

    static void input( const std::uint8_t* in, std::size_t in_size, std::uint8_t* out, std::size_t* out_size )
    {
        server.notification_callback( &cb, nullptr );
        server.l2cap_input( in, in_size, out, *out_size, conn );
    }

    static void output( std::uint8_t* out, std::size_t* out_size )
    {
        server.l2cap_output( out, *out_size, conn );
    }

    static void set_conn( unsigned client_mtu, int encrypted, int pairing, const std::uint8_t* cccd )
    {
        conn.client_mtu_ = static_cast< std::uint16_t >( client_mtu );
        conn.is_encrypted( encrypted != 0 );
        conn.pairing_status( static_cast< bluetoe::device_pairing_status >( pairing ) );
        set_cccd( cccd, std::integral_constant< bool, Server::number_of_client_configs != 0 >() );
    }

    static void set_cccd( const std::uint8_t* cccd, std::true_type )
    {
        std::size_t i = 0;
        for ( std::uint8_t* p = conn.serialized_cccds_begin(); p != conn.serialized_cccds_end(); ++p, ++i )
            *p = cccd[ i ];
    }
    static void set_cccd( const std::uint8_t*, std::false_type ) {}

    static void get_cccd( std::uint8_t* cccd )
    {
        std::size_t i = 0;
        for ( const std::uint8_t* p = conn.serialized_cccds_begin(); p != conn.serialized_cccds_end(); ++p, ++i )
            cccd[ i ] = *p;
    }

    static unsigned client_mtu()     { return conn.client_mtu(); }
    static unsigned negotiated_mtu() { return conn.negotiated_mtu(); }
    static unsigned server_mtu()     { return conn.server_mtu(); }
    static unsigned num_cccd()       { return Server::number_of_client_configs; }

    static int queue( int indication, unsigned idx )
    {
        return indication ? conn.queue_indication( idx ) : conn.queue_notification( idx );
    }
};

/* ATT_A_PART selects the one configuration compiled into this unit.  One configuration per unit keeps the set of
 * attribute access functions (the targets of the indirect call attribute::access) to those of the server under test;
 * the units are built in parallel. */
#ifndef ATT_A_PART
#define ATT_A_PART 0
#endif

#if ATT_A_PART == 0
    using srv_t = cfg0_server<>;
#elif ATT_A_PART == 1
    using srv_t = cfg1_server;
#elif ATT_A_PART == 2
    using srv_t = cfg2_server;
#elif ATT_A_PART == 3
    using srv_t = cfg3_server;
#elif ATT_A_PART == 4
    using srv_t = cfg4_server;
#elif ATT_A_PART == 5
    using srv_t = cfg0_server< bluetoe::max_mtu_size< 40 > >;
#else
    using srv_t = cfg6_server;
#endif

srv_t            srv;
conn_of< srv_t > conn, other_conn;
using c = cfg< srv_t, srv, conn >;

/* cfgno is kept in the interface for readability of the harness; the unit contains exactly configuration ATT_A_PART */
#define VF_DISPATCH( CALL ) static_cast< void >( cfgno ); return c::CALL;

extern "C" {

__attribute__((noinline)) void vf_att_input( int cfgno, const std::uint8_t* in, std::size_t in_size, std::uint8_t* out, std::size_t* out_size )
{
    VF_DISPATCH( input( in, in_size, out, out_size ) )
}

__attribute__((noinline)) void vf_att_output( int cfgno, std::uint8_t* out, std::size_t* out_size )
{
    VF_DISPATCH( output( out, out_size ) )
}

__attribute__((noinline)) void vf_att_set_conn( int cfgno, unsigned client_mtu, int encrypted, int pairing, const std::uint8_t* cccd )
{
    VF_DISPATCH( set_conn( client_mtu, encrypted, pairing, cccd ) )
}

__attribute__((noinline)) unsigned vf_att_client_mtu( int cfgno )     { VF_DISPATCH( client_mtu() ) }
__attribute__((noinline)) unsigned vf_att_negotiated_mtu( int cfgno ) { VF_DISPATCH( negotiated_mtu() ) }
__attribute__((noinline)) unsigned vf_att_server_mtu( int cfgno )     { VF_DISPATCH( server_mtu() ) }
__attribute__((noinline)) unsigned vf_att_num_cccd( int cfgno )       { VF_DISPATCH( num_cccd() ) }

/* configurations with at least one CCCD only (cfg 1, 2, 3, 4) */
__attribute__((noinline)) void vf_att_get_cccd( int cfgno, std::uint8_t* cccd )
{
#if ( ATT_A_PART >= 1 && ATT_A_PART <= 4 ) || ATT_A_PART == 6
    VF_DISPATCH( get_cccd( cccd ) )
#endif
}

/* queue a notification (indication == 0) or indication for the characteristic with the given CCCD index in the connection's real notification queue */
__attribute__((noinline)) int vf_att_queue( int cfgno, int indication, unsigned idx )
{
#if ( ATT_A_PART >= 1 && ATT_A_PART <= 4 ) || ATT_A_PART == 6
    VF_DISPATCH( queue( indication, idx ) )
#else
    return 0;
#endif
}

#if ATT_A_PART == 2
/* write queue of cfg 2: owner 0 = none, 1 = the connection under test, 2 = another connection */
__attribute__((noinline)) void vf_att_wq_set( int owner, unsigned buffer_end, const std::uint8_t* bytes )
{
    auto& q = srv;
    q.current_client_ = owner == 0 ? nullptr : owner == 1 ? static_cast< void* >( &conn ) : static_cast< void* >( &other_conn );
    q.buffer_end_     = static_cast< std::uint16_t >( buffer_end );
    for ( unsigned i = 0; i != 32; ++i )
        q.buffer_[ i ] = bytes[ i ];
}

__attribute__((noinline)) void vf_att_wq_get( int* owner, unsigned* buffer_end, std::uint8_t* bytes )
{
    auto& q = srv;
    *owner      = q.current_client_ == nullptr ? 0 : q.current_client_ == static_cast< void* >( &conn ) ? 1 : q.current_client_ == static_cast< void* >( &other_conn ) ? 2 : 3;
    *buffer_end = q.buffer_end_;
    for ( unsigned i = 0; i != 32; ++i )
        bytes[ i ] = q.buffer_[ i ];
}
#else
__attribute__((noinline)) void vf_att_wq_set( int, unsigned, const std::uint8_t* ) {}
__attribute__((noinline)) void vf_att_wq_get( int* owner, unsigned* buffer_end, std::uint8_t* ) { *owner = 0; *buffer_end = 0; }
#endif

__attribute__((noinline)) void vf_att_set_values( const std::uint8_t* b )
{
    val_v1 = b[ 0 ];
    std::memcpy( &val_v4, b + 1, 4 );
    std::memcpy( &val_v2, b + 5, 2 );
    std::memcpy( val_v3, b + 7, 3 );
    std::memcpy( val_v20, b + 10, 20 );
    std::memcpy( val_v30, b + 30, 30 );
    std::memcpy( val_v40, b + 60, 40 );
}

}
