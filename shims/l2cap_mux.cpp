// shim: the real bluetoe::details::l2cap< LinkLayer, ChannelData, Channels... > multiplexer with three recording channels on a
// link-layer stub. Channels and the buffer API of the link layer are environment functions that the harness defines.
// No property logic here: wrappers only instantiate and forward.
#include <bluetoe/l2cap.hpp>

extern "C" {
    // environment, defined in the harness. ch = 3 * configuration + position of the channel in the channel list
    void vf_ch_input( int ch, const std::uint8_t* in, unsigned long in_size, std::uint8_t* out, unsigned long* out_size );
    void vf_ch_output( int ch, std::uint8_t* out, unsigned long* out_size );
    // link layer buffer API: returns the buffer (or null) and its size in *got
    std::uint8_t* vf_ll_allocate( unsigned long requested, unsigned long* got );
    void vf_ll_commit( unsigned long size, std::uint8_t* buffer );
}

namespace {
    struct conn_data { int unused; };

    template < int Idx, std::uint16_t Cid, std::size_t Min, std::size_t Max >
    struct rec_channel
    {
        static constexpr std::uint16_t channel_id               = Cid;
        static constexpr std::size_t   minimum_channel_mtu_size = Min;
        static constexpr std::size_t   maximum_channel_mtu_size = Max;

        template < typename ConnectionData >
        void l2cap_input( const std::uint8_t* input, std::size_t in_size, std::uint8_t* output, std::size_t& out_size, ConnectionData& )
        {
            unsigned long o = out_size;
            vf_ch_input( Idx, input, in_size, output, &o );
            out_size = o;
        }

        template < typename ConnectionData >
        void l2cap_output( std::uint8_t* output, std::size_t& out_size, ConnectionData& )
        {
            unsigned long o = out_size;
            vf_ch_output( Idx, output, &o );
            out_size = o;
        }

        template < class PreviousData >
        using channel_data_t = PreviousData;
    };

    template < class ... Channels >
    struct ll_stub : bluetoe::details::l2cap< ll_stub< Channels... >, conn_data, Channels... >
    {
        std::pair< std::size_t, std::uint8_t* > allocate_l2cap_output_buffer( std::size_t size )
        {
            unsigned long got = 0;
            std::uint8_t* const p = vf_ll_allocate( size, &got );
            return { got, p };
        }

        void commit_l2cap_output_buffer( std::pair< std::size_t, std::uint8_t* > buffer )
        {
            vf_ll_commit( buffer.first, buffer.second );
        }

        conn_data connection;
    };

    // CFG 0: the CIDs of the LE fixed channels (ATT, signaling, SM) with different minimum / maximum MTU sizes
    using ll0_t = ll_stub< rec_channel< 0, 4, 23, 31 >, rec_channel< 1, 5, 20, 23 >, rec_channel< 2, 6, 25, 27 > >;
    // CFG 1: CIDs that differ only in the high or only in the low byte
    using ll1_t = ll_stub< rec_channel< 3, 0x0004, 23, 23 >, rec_channel< 4, 0x0104, 27, 29 >, rec_channel< 5, 0x0401, 24, 26 > >;

    ll0_t ll0;
    ll1_t ll1;
}

extern "C" {

__attribute__((noinline)) int vf_mux_input( int cfg, const std::uint8_t* frame, unsigned long size )
{
    switch ( cfg ) {
    case 0:  return ll0.handle_l2cap_input( frame, size, ll0.connection );
    default: return ll1.handle_l2cap_input( frame, size, ll1.connection );
    }
}

__attribute__((noinline)) int vf_mux_poll_single( int cfg )
{
    switch ( cfg ) {
    case 0:  return ll0.transmit_single_pending_l2cap_output( ll0.connection );
    default: return ll1.transmit_single_pending_l2cap_output( ll1.connection );
    }
}

__attribute__((noinline)) void vf_mux_poll_all( int cfg )
{
    switch ( cfg ) {
    case 0:  ll0.transmit_pending_l2cap_output( ll0.connection ); break;
    default: ll1.transmit_pending_l2cap_output( ll1.connection ); break;
    }
}

__attribute__((noinline)) unsigned long vf_mux_min_mtu( int cfg ) { return cfg == 0 ? std::size_t( ll0_t::minimum_mtu_size ) : std::size_t( ll1_t::minimum_mtu_size ); }
__attribute__((noinline)) unsigned long vf_mux_max_mtu( int cfg ) { return cfg == 0 ? std::size_t( ll0_t::maximum_mtu_size ) : std::size_t( ll1_t::maximum_mtu_size ); }

}
