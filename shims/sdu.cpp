// shim: the real bluetoe::link_layer::ll_l2cap_sdu_buffer<BufferedRadio, ReceiveCallbacks, MTUSize> (ll_l2cap_sdu_buffer.hpp)
// on a stub BufferedRadio whose functions are the environment (defined in the harness):
//   allocate_transmit_buffer / commit_transmit_buffer / next_received / free_received / max_tx_size / pdu_receive_data_callback.
// Layouts: bluetoe::link_layer::default_pdu_layout (layout_overhead 0) and bluetoe::nrf_details::encrypted_pdu_layout
// (layout_overhead 1; nrf.hpp built against /verif/stubs/nrf.h).
// No property logic here: wrappers forward calls; state getters return raw member values / the raw object bytes.
#include <bluetoe/ll_l2cap_sdu_buffer.hpp>
#include <bluetoe/default_pdu_layout.hpp>
#include <bluetoe/nrf.hpp>
#undef reinterpret_cast
#include <new>

extern "C" {
    // the register blocks the NRF_xxx macros of stubs/nrf.h point to (never accessed by the code of this unit)
    NRF_ECB_Type    vf_nrf_ecb;
    NRF_RNG_Type    vf_nrf_rng;
    NRF_CLOCK_Type  vf_nrf_clock;
    NRF_RTC_Type    vf_nrf_rtc0;
    NRF_RADIO_Type  vf_nrf_radio;
    NRF_TIMER_Type  vf_nrf_timer0, vf_nrf_timer1;
    NRF_TEMP_Type   vf_nrf_temp;
    NRF_CCM_Type    vf_nrf_ccm;
    NRF_AAR_Type    vf_nrf_aar;
    NRF_PPI_Type    vf_nrf_ppi;
    NRF_GPIOTE_Type vf_nrf_gpiote;
    NVIC_Type       vf_nvic;

    // ---- environment: the buffered radio below the SDU buffer (harness)
    std::uint8_t*       vf_sdu_env_allocate_transmit_buffer( unsigned long size, unsigned long* out_size );
    void                vf_sdu_env_commit_transmit_buffer( std::uint8_t* buffer, unsigned long size );
    const std::uint8_t* vf_sdu_env_next_received( unsigned long* out_size );
    void                vf_sdu_env_free_received( void );
    unsigned long       vf_sdu_env_max_tx_size( void );
    void                vf_sdu_env_pdu_receive_data_callback( const std::uint8_t* buffer, unsigned long size );
}

namespace {
    using bluetoe::link_layer::read_buffer;
    using bluetoe::link_layer::write_buffer;

    template < class Layout, std::size_t Overhead >
    struct radio_stub
    {
        static constexpr std::size_t header_size     = 2;
        static constexpr std::size_t layout_overhead = Overhead;
        using layout = Layout;

        read_buffer allocate_transmit_buffer( std::size_t size )
        {
            unsigned long s = 0;
            std::uint8_t* const p = vf_sdu_env_allocate_transmit_buffer( size, &s );
            return read_buffer{ p, s };
        }

        void commit_transmit_buffer( read_buffer buffer )
        {
            vf_sdu_env_commit_transmit_buffer( buffer.buffer, buffer.size );
        }

        write_buffer next_received() const
        {
            unsigned long s = 0;
            const std::uint8_t* const p = vf_sdu_env_next_received( &s );
            return write_buffer{ p, s };
        }

        void free_received()
        {
            vf_sdu_env_free_received();
        }

        std::size_t max_tx_size() const
        {
            return vf_sdu_env_max_tx_size();
        }
    };

    template < class Radio, std::size_t Mtu >
    struct sdu_buffer : bluetoe::link_layer::ll_l2cap_sdu_buffer< Radio, sdu_buffer< Radio, Mtu >, Mtu >
    {
        void pdu_receive_data_callback( const write_buffer& pdu )
        {
            vf_sdu_env_pdu_receive_data_callback( pdu.buffer, pdu.size );
        }
    };

    using radio_default   = radio_stub< bluetoe::link_layer::default_pdu_layout, 0 >;
    using radio_encrypted = radio_stub< bluetoe::nrf_details::encrypted_pdu_layout, 1 >;

    sdu_buffer< radio_default, 65 >   s0;   // CFG 0
    sdu_buffer< radio_encrypted, 65 > s1;   // CFG 1
    sdu_buffer< radio_default, 40 >   s2;   // CFG 2
}

#define FOR_CFG( cfg, expr ) \
    switch ( cfg ) { \
    case 0: { auto& b = s0; expr; } break; \
    case 1: { auto& b = s1; expr; } break; \
    default: { auto& b = s2; expr; } break; \
    }

#define EXPORT extern "C" __attribute__((noinline))

EXPORT void vf_sdu_construct( int cfg )
{
    FOR_CFG( cfg, typedef typename std::remove_reference< decltype( b ) >::type T; new ( &b ) T() );
}

/* where: 0 empty buffer, 1 the reassembly buffer (receive_buffer_), 2 something else (a PDU of the radio);
 * decided by pointer equality only: no pointer -> integer conversions in the unit */
EXPORT const std::uint8_t* vf_sdu_next_ll_l2cap_received( int cfg, unsigned long* out_size, int* where )
{
    write_buffer r;
    FOR_CFG( cfg,
        r = b.next_ll_l2cap_received();
        *where = r.buffer == nullptr ? 0 : ( r.buffer == &b.receive_buffer_[ 0 ] ? 1 : 2 );
    );
    *out_size = r.size;
    return r.buffer;
}

EXPORT void vf_sdu_free_ll_l2cap_received( int cfg )
{
    FOR_CFG( cfg, b.free_ll_l2cap_received() );
}

EXPORT std::uint8_t* vf_sdu_allocate_l2cap_transmit_buffer( int cfg, unsigned long payload_size, unsigned long* out_size )
{
    read_buffer r{ nullptr, 0 };
    FOR_CFG( cfg, r = b.allocate_l2cap_transmit_buffer( payload_size ) );
    *out_size = r.size;
    return r.buffer;
}

EXPORT void vf_sdu_commit_l2cap_transmit_buffer( int cfg, std::uint8_t* buffer, unsigned long size )
{
    FOR_CFG( cfg, b.commit_l2cap_transmit_buffer( read_buffer{ buffer, size } ) );
}

EXPORT std::uint8_t* vf_sdu_allocate_ll_transmit_buffer( int cfg, unsigned long payload_size, unsigned long* out_size )
{
    read_buffer r{ nullptr, 0 };
    FOR_CFG( cfg, r = b.allocate_ll_transmit_buffer( payload_size ) );
    *out_size = r.size;
    return r.buffer;
}

EXPORT void vf_sdu_commit_ll_transmit_buffer( int cfg, std::uint8_t* buffer, unsigned long size )
{
    FOR_CFG( cfg, b.commit_ll_transmit_buffer( read_buffer{ buffer, size } ) );
}

/* ---- raw state: the object's bytes and where its members are
 * what: 0 sizeof object, 1 offset of receive_buffer_, 2 sizeof receive_buffer_, 3 offset of receive_size_ (2 bytes), 4 offset of receive_buffer_used_ (8 bytes),
 *       5 offset of transmit_buffer_, 6 sizeof transmit_buffer_, 7 offset of transmit_size_ (2 bytes), 8 offset of transmit_buffer_used_ (8 bytes) */
EXPORT unsigned long vf_sdu_geometry( int cfg, int what )
{
    unsigned long r = 0;
    FOR_CFG( cfg,
        typedef typename std::remove_reference< decltype( b ) >::type T;
        switch ( what ) {
        case 0: r = sizeof( T ); break;
        case 1: r = __builtin_offsetof( T, receive_buffer_ ); break;
        case 2: r = sizeof( b.receive_buffer_ ); break;
        case 3: r = __builtin_offsetof( T, receive_size_ ); break;
        case 4: r = __builtin_offsetof( T, receive_buffer_used_ ); break;
        case 5: r = __builtin_offsetof( T, transmit_buffer_ ); break;
        case 6: r = sizeof( b.transmit_buffer_ ); break;
        case 7: r = __builtin_offsetof( T, transmit_size_ ); break;
        default: r = __builtin_offsetof( T, transmit_buffer_used_ ); break;
        }
    );
    return r;
}

EXPORT unsigned char vf_sdu_peek( int cfg, unsigned long off )
{
    unsigned char r = 0; FOR_CFG( cfg, r = reinterpret_cast< const unsigned char* >( &b )[ off ] ); return r;
}

EXPORT void vf_sdu_poke( int cfg, unsigned long off, unsigned char v )
{
    FOR_CFG( cfg, reinterpret_cast< unsigned char* >( &b )[ off ] = v );
}

EXPORT unsigned long vf_sdu_receive_size( int cfg )        { unsigned long r = 0; FOR_CFG( cfg, r = b.receive_size_ ); return r; }
EXPORT unsigned long vf_sdu_receive_buffer_used( int cfg ) { unsigned long r = 0; FOR_CFG( cfg, r = b.receive_buffer_used_ ); return r; }
EXPORT unsigned long vf_sdu_transmit_size( int cfg )       { unsigned long r = 0; FOR_CFG( cfg, r = b.transmit_size_ ); return r; }
EXPORT unsigned long vf_sdu_transmit_buffer_used( int cfg ){ unsigned long r = 0; FOR_CFG( cfg, r = b.transmit_buffer_used_ ); return r; }
