/* ll_d_api.h — C interface of shim ll_d.cpp (real bluetoe::link_layer::link_layer<server, stub radio, options...>)
 * shared by the shim and the harnesses of C27 / C28 / C29.  Only forwarding calls and raw state copies.
 *
 * The shim is built three times (Unit flag -DVFD_CFG=n), one link layer instance per unit:
 *   VFD_CFG 0: plain server, radio with 2 MBit support, buffer_sizes<100,100>, connection_callbacks (all callbacks recorded)
 *   VFD_CFG 1: plain server, radio without 2 MBit support, default buffers, no callbacks
 *   VFD_CFG 2: server that requires encryption, encryption capable radio (encryption calls forwarded to the harness),
 *              stub security manager (find_key / local_device_pairing_status forwarded to the harness), connection_callbacks
 */
#ifndef VF_LL_D_API_H
#define VF_LL_D_API_H
#include <stdint.h>
#include <stddef.h>

#ifdef __cplusplus
extern "C" {
#endif

/* indices into the uint32_t state vector used by vfd_set_state / vfd_get_state (raw member copies) */
enum {
    VFD_STATE = 0,          /* link_layer::state_ (0 initial,1 advertising,2 connecting,3 connected,4 disconnecting,5 connection_changed) */
    VFD_EVENT_COUNTER,      /* connection_state_base::event_counter_ */
    VFD_CHANNEL_INDEX,      /* connection_state_base::channel_index_ */
    VFD_TIME_SINCE_LAST,    /* connection_state_base::time_since_last_event_ (us) */
    VFD_LAST_LATENCY,       /* disarmable_connection_state::last_latency_ (0 when the configuration has none) */
    VFD_CUM_SCA,            /* cumulated_sleep_clock_accuracy_ (ppm) */
    VFD_WIN_OFFSET,         /* transmit_window_offset_ (us) */
    VFD_WIN_SIZE,           /* transmit_window_size_ (us) */
    VFD_INTERVAL,           /* connection_interval_ (us) */
    VFD_LATENCY,            /* peripheral_latency_ */
    VFD_TIMEOUT_VALUE,      /* timeout_value_ (10 ms units) */
    VFD_CONN_TIMEOUT,       /* connection_timeout_ (us) */
    VFD_PROC_TIMEOUT,       /* procedure_timeout_ (us) */
    VFD_DEFERRED_INSTANT,   /* defered_conn_event_counter_ */
    VFD_DEFERRED_SIZE,      /* defered_ll_control_pdu_.size; set: 0 = none, n = points to the link layer's own deferred PDU buffer */
    VFD_TERMINATION_SEND,
    VFD_USED_FEATURES,
    VFD_PENDING_EVENT,
    VFD_DISC_REASON,        /* disconnecting_reason_ */
    VFD_FLAGS,              /* bit0 conn_param_req_pending, 1 running, 2 use_signaling, 3 phy_update_request_pending,
                               4 remote_versions_request_pending, 5 version_indication_received, 6 restart_user_timer_requested */
    VFD_PROPOSED_MIN,       /* proposed_interval_min_ */
    VFD_PROPOSED_MAX,
    VFD_PROPOSED_LATENCY,
    VFD_PROPOSED_TIMEOUT,
    VFD_PHY_REQ_TX,         /* phy_update_request_transmit_ */
    VFD_PHY_REQ_RX,
    VFD_HAS_KEY,            /* link_layer_security_impl::has_key_              (VFD_CFG 2 only, else 0) */
    VFD_ENC_IN_PROGRESS,    /* link_layer_security_impl::encryption_in_progress_ (VFD_CFG 2 only, else 0) */
    VFD_ENCRYPTED,          /* connection_data_.is_encrypted()                  (get: all configurations; set: VFD_CFG 2 only) */
    VFD_PAIRING_STATUS,     /* connection_data_.pairing_status()                (VFD_CFG 2 only) */
    VFD_NFIELDS
};

#define VFD_ST_INITIAL       0u
#define VFD_ST_ADVERTISING   1u
#define VFD_ST_CONNECTING    2u
#define VFD_ST_CONNECTED     3u
#define VFD_ST_DISCONNECTING 4u
#define VFD_ST_CHANGED       5u

/* ---- implemented by the shim (forwarders) */
void     vfd_run(void);                                      /* link_layer::run(): starts advertising */
void     vfd_reset_buffers(void);                            /* reset_pdu_buffer() */
void     vfd_set_state(const uint32_t* f);
void     vfd_get_state(uint32_t* f);
void     vfd_set_disc_reason(unsigned reason);   /* raw copy into disconnecting_reason_ (what an earlier connection left behind) */
int      vfd_set_channel_map(const uint8_t* map5, unsigned hop);    /* channels_.reset(map, hop) */
void     vfd_set_deferred_bytes(const uint8_t* pdu, unsigned n);    /* content of defered_ll_control_pdu_buffer_ */
uint64_t vfd_supported_features(void);                       /* public supported_link_layer_features() */
unsigned vfd_version(void);                                  /* public supported_link_layer_version() */
unsigned vfd_company(void);                                  /* public link_layer_company_identifier() */
void     vfd_local_address(uint8_t* addr6, int* is_random);

/* returns bit0: ll_result::disconnect, bit1: no transmit buffer available (nothing called).
 * The PDU (header 2 bytes + body) is copied into the shim's control PDU store first; a 27 byte payload LL transmit buffer is allocated as
 * link_layer::handle_received_data does it. */
int      vfd_handle_ll_control_data(const uint8_t* pdu, unsigned n);
void     vfd_transmit_pending_security_pdus(void);           /* link_layer_security_impl::transmit_pending_security_pdus (no-op without encryption) */
void     vfd_transmit_pending_control_pdus(void);            /* link_layer::transmit_pending_control_pdus */
void     vfd_end_event(unsigned evt_flags);                  /* bit0 unacknowledged_data,1 last_received_not_empty,2 last_transmitted_not_empty,
                                                                3 last_received_had_more_data,4 pending_outgoing_data,5 error_occured */
void     vfd_timeout(void);
void     vfd_adv_received(const uint8_t* pdu, unsigned n);   /* copies into an exact copy buffer and calls adv_received */
int      vfd_radio_receive(const uint8_t* pdu, unsigned n);  /* radio side: allocate_receive_buffer + copy + received(); 0 if no buffer */
void     vfd_disconnect(unsigned reason);                    /* public disconnect( reason ) */
/* public API that starts peripheral initiated procedures; return the API's result */
int      vfd_connection_parameter_update_request(unsigned imin, unsigned imax, unsigned latency, unsigned timeout);
int      vfd_initiating_connection_parameter_request(unsigned imin, unsigned imax, unsigned latency, unsigned timeout);
int      vfd_phy_update_request(unsigned transmit, unsigned receive);
int      vfd_remote_versions_request(void);

/* connection_callbacks event mechanism (VFD_CFG 0 and 2): push one event through the real connection_callbacks member functions of the
 * link layer object / drain with the real handle_connection_events(). kind = VFD_CB_* ; arg = reason / error code */
void     vfd_cb_push(unsigned kind, unsigned arg);
void     vfd_cb_handle_events(void);
unsigned vfd_cb_pending(void);                               /* number of events in the ring: (write - read) mod length */

/* ---- environment, implemented by the harness */
uint32_t vfd_env_sched_evt(unsigned channel, uint32_t start_us, uint32_t end_us, uint32_t interval_us);
void     vfd_env_sched_adv(unsigned channel, uint32_t when_us);
int      vfd_env_disarm(uint32_t* now_us);
void     vfd_env_set_phy(unsigned receive, unsigned transmit);
void     vfd_env_callback(unsigned what, unsigned a, unsigned b, unsigned c);   /* connection callbacks, what = VFD_CB_* */
void     vfd_env_commit(const uint8_t* pdu, unsigned avail);                    /* radio: a PDU is committed for transmission (pdu[1] = payload length) */
/* stub security manager / encryption capable radio (VFD_CFG 2) */
int      vfd_env_find_key(unsigned ediv, uint32_t rand_lo, uint32_t rand_hi, uint8_t* key16);
unsigned vfd_env_pairing_status(void);                                          /* local_device_pairing_status(): 0 no_key, 1 unauthenticated, 2 authenticated, 3 authenticated LESC */
void     vfd_env_restore_cccds(void);
void     vfd_env_setup_encryption(const uint8_t* key16, uint32_t skdm_lo, uint32_t skdm_hi, uint32_t ivm, uint32_t* skds_lo, uint32_t* skds_hi, uint32_t* ivs);
void     vfd_env_crypt(unsigned what);                                          /* VFD_CRYPT_* */

#define VFD_CRYPT_START_RX 1u
#define VFD_CRYPT_START_TX 2u
#define VFD_CRYPT_STOP_RX  3u
#define VFD_CRYPT_STOP_TX  4u

#define VFD_CB_REQUESTED 1u
#define VFD_CB_ATTEMPT_TIMEOUT 2u
#define VFD_CB_ESTABLISHED 3u
#define VFD_CB_CHANGED 4u      /* a interval (1.25ms units), b latency, c timeout (10 ms) */
#define VFD_CB_CLOSED 5u       /* a reason */
#define VFD_CB_VERSION 6u      /* a version, b company, c subversion */
#define VFD_CB_REJECTED 7u     /* a error code */
#define VFD_CB_UNKNOWN 8u      /* a unknown type */
#define VFD_CB_REMOTE_FEATURES 9u  /* a first feature byte */
#define VFD_CB_PHY_UPDATED 10u /* a transmit, b receive */

#ifdef __cplusplus
}
#endif
#endif
