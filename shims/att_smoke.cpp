#include <bluetoe/server.hpp>
#include <bluetoe/service.hpp>
#include <bluetoe/characteristic.hpp>

std::uint32_t temperature_value = 0x12345678;
std::uint8_t  small_value = 7;
static const char name1[] = "Temp";

using srv_t = bluetoe::server<
    bluetoe::shared_write_queue< 32 >,
    bluetoe::service<
        bluetoe::service_uuid< 0x8C8B4094, 0x0DE2, 0x499F, 0xA28A, 0x4EED5BC73CA9 >,
        bluetoe::characteristic<
            bluetoe::characteristic_name< name1 >,
            bluetoe::bind_characteristic_value< decltype( temperature_value ), &temperature_value >,
            bluetoe::notify
        >,
        bluetoe::characteristic<
            bluetoe::characteristic_uuid16< 0x2A19 >,
            bluetoe::bind_characteristic_value< decltype( small_value ), &small_value >,
            bluetoe::requires_encryption
        >
    >
>;

struct conn_t : srv_t::connection_data {
    bluetoe::connection_security_attributes sec;
    bluetoe::connection_security_attributes security_attributes() const { return sec; }
};

srv_t  server;
conn_t conn;

extern "C" __attribute__((noinline)) void vf_l2cap_input( const std::uint8_t* in, std::size_t in_size, std::uint8_t* out, std::size_t* out_size, int encrypted, int pairing )
{
    conn.sec = bluetoe::connection_security_attributes( encrypted != 0, static_cast< bluetoe::device_pairing_status >( pairing ) );
    server.l2cap_input( in, in_size, out, *out_size, conn );
}
