/* att_d9 — ATT server with seven notify/indicate characteristics (DESIGN.md configuration A6) for property C09.
 *
 * Only instantiates and forwards.  cfg 0: no priorities; cfg 1: the same services with outgoing priorities
 * (service S1: higher_outgoing_priority< c3, c1 >, server: higher_outgoing_priority< S2 >), which reorders the
 * positions of the 2-bit CCCD fields in the per connection configuration bytes (7 fields -> 2 bytes).
 * Two connection objects (who 0 = A, 1 = B) of the server's channel_data_t (notification queue + connection_data)
 * per server, settable link security.  shared_write_queue<16> so that CCCD writes with an offset can be issued through
 * Prepare Write / Execute Write.
 *
 * attribute table (no GAP service, handles consecutive from 1) — the same for both configurations:
 *   1  primary service S1 (0x1811)
 *   2  decl   3 value c0 (0xC000, notify)            4 CCCD
 *   5  decl   6 value c1 (0xC001, indicate)          7 CCCD
 *   8  decl   9 value p  (0xC0FF, plain read/write)
 *  10  decl  11 value c2 (0xC002, notify+indicate)  12 CCCD
 *  13  decl  14 value c3 (0xC003, notify)           15 CCCD
 *  16  primary service S2 (0x1812)
 *  17  decl  18 value c4 (0xC004, notify)           19 CCCD
 *  20  decl  21 value c5 (0xC005, indicate)         22 CCCD
 *  23  decl  24 value c6 (0xC006, notify+indicate)  25 CCCD
 */
#include <bluetoe/server.hpp>
#include <bluetoe/service.hpp>
#include <bluetoe/characteristic.hpp>
#include <bluetoe/outgoing_priority.hpp>

std::uint8_t d9_v0, d9_v1, d9_v2, d9_v3, d9_v4, d9_v5, d9_v6;
std::uint8_t d9_plain;

/* environment, defined in the harness */
extern "C" void vf_d9_env_cccd_updated( int cfg, int who );
extern "C" int  vf_d9_env_l2cap_notification( int cfg, unsigned attribute_index, unsigned cccd_index, int type );

using d9_S1 = bluetoe::service_uuid16< 0x1811 >;
using d9_S2 = bluetoe::service_uuid16< 0x1812 >;
using d9_u0 = bluetoe::characteristic_uuid16< 0xC000 >;
using d9_u1 = bluetoe::characteristic_uuid16< 0xC001 >;
using d9_u2 = bluetoe::characteristic_uuid16< 0xC002 >;
using d9_u3 = bluetoe::characteristic_uuid16< 0xC003 >;
using d9_u4 = bluetoe::characteristic_uuid16< 0xC004 >;
using d9_u5 = bluetoe::characteristic_uuid16< 0xC005 >;
using d9_u6 = bluetoe::characteristic_uuid16< 0xC006 >;

template < std::uint8_t* V, typename UUID, typename ... Options >
using d9_char = bluetoe::characteristic< UUID, bluetoe::bind_characteristic_value< std::uint8_t, V >, Options... >;

using d9_plain_char = bluetoe::characteristic< bluetoe::characteristic_uuid16< 0xC0FF >, bluetoe::bind_characteristic_value< std::uint8_t, &d9_plain > >;

template < int Cfg >
struct d9_callback
{
    template < class Server >
    void client_characteristic_configuration_updated( Server&, const bluetoe::details::client_characteristic_configuration& data );
};

static d9_callback< 0 > d9_cb0;
static d9_callback< 1 > d9_cb1;

using d9_server0 = bluetoe::server<
    bluetoe::no_gap_service_for_gatt_servers,
    bluetoe::shared_write_queue< 16 >,
    bluetoe::client_characteristic_configuration_update_callback< d9_callback< 0 >, d9_cb0 >,
    bluetoe::service< d9_S1,
        d9_char< &d9_v0, d9_u0, bluetoe::notify >,
        d9_char< &d9_v1, d9_u1, bluetoe::indicate >,
        d9_plain_char,
        d9_char< &d9_v2, d9_u2, bluetoe::notify, bluetoe::indicate >,
        d9_char< &d9_v3, d9_u3, bluetoe::notify >
    >,
    bluetoe::service< d9_S2,
        d9_char< &d9_v4, d9_u4, bluetoe::notify >,
        d9_char< &d9_v5, d9_u5, bluetoe::indicate >,
        d9_char< &d9_v6, d9_u6, bluetoe::notify, bluetoe::indicate >
    >
>;

using d9_server1 = bluetoe::server<
    bluetoe::no_gap_service_for_gatt_servers,
    bluetoe::shared_write_queue< 16 >,
    bluetoe::client_characteristic_configuration_update_callback< d9_callback< 1 >, d9_cb1 >,
    bluetoe::service< d9_S1,
        d9_char< &d9_v0, d9_u0, bluetoe::notify >,
        d9_char< &d9_v1, d9_u1, bluetoe::indicate >,
        d9_plain_char,
        d9_char< &d9_v2, d9_u2, bluetoe::notify, bluetoe::indicate >,
        d9_char< &d9_v3, d9_u3, bluetoe::notify >,
        bluetoe::higher_outgoing_priority< d9_u3, d9_u1 >
    >,
    bluetoe::service< d9_S2,
        d9_char< &d9_v4, d9_u4, bluetoe::notify >,
        d9_char< &d9_v5, d9_u5, bluetoe::indicate >,
        d9_char< &d9_v6, d9_u6, bluetoe::notify, bluetoe::indicate >
    >,
    bluetoe::higher_outgoing_priority< d9_S2 >
>;

struct d9_prev {};

#define D9_WORLD( NAME, SRV, CFG ) \
struct NAME \
{ \
    using srv_t = SRV; \
    struct conn_t : srv_t::channel_data_t< d9_prev > { \
        bluetoe::connection_security_attributes sec; \
        bluetoe::connection_security_attributes security_attributes() const { return sec; } \
    }; \
    static srv_t  server; \
    static conn_t conn_a, conn_b; \
    static conn_t& conn( int who ) { return who ? conn_b : conn_a; } \
    static bool l2cap_cb( const bluetoe::details::notification_data& item, void*, bluetoe::details::notification_type type ) \
    { \
        return vf_d9_env_l2cap_notification( CFG, item.attribute_table_index(), item.client_characteristic_configuration_index(), static_cast< int >( type ) ) != 0; \
    } \
    static bool do_notify( int k, int ind ) \
    { \
        switch ( k * 2 + ( ind ? 1 : 0 ) ) \
        { \
            case 0:  return server.notify< d9_u0 >(); \
            case 3:  return server.indicate< d9_u1 >(); \
            case 4:  return server.notify< d9_u2 >(); \
            case 5:  return server.indicate< d9_u2 >(); \
            case 6:  return server.notify< d9_u3 >(); \
            case 8:  return server.notify< d9_u4 >(); \
            case 11: return server.indicate< d9_u5 >(); \
            case 12: return server.notify< d9_u6 >(); \
            case 13: return server.indicate< d9_u6 >(); \
        } \
        return false; \
    } \
}; \
NAME::srv_t  NAME::server; \
NAME::conn_t NAME::conn_a; \
NAME::conn_t NAME::conn_b;

D9_WORLD( d9w0, d9_server0, 0 )
D9_WORLD( d9w1, d9_server1, 1 )

template <>
template < class Server >
void d9_callback< 0 >::client_characteristic_configuration_updated( Server&, const bluetoe::details::client_characteristic_configuration& data )
{
    vf_d9_env_cccd_updated( 0, data.data_ == d9w0::conn_a.serialized_cccds_begin() ? 0 : data.data_ == d9w0::conn_b.serialized_cccds_begin() ? 1 : 2 );
}

template <>
template < class Server >
void d9_callback< 1 >::client_characteristic_configuration_updated( Server&, const bluetoe::details::client_characteristic_configuration& data )
{
    vf_d9_env_cccd_updated( 1, data.data_ == d9w1::conn_a.serialized_cccds_begin() ? 0 : data.data_ == d9w1::conn_b.serialized_cccds_begin() ? 1 : 2 );
}

#define D9_DISPATCH( e0, e1 ) do { if ( cfg == 0 ) { e0; } else { e1; } } while ( 0 )

extern "C" {

/* what the link layer does when it is constructed */
__attribute__((noinline)) void vf_d9_init( int cfg )
{
    D9_DISPATCH( d9w0::server.notification_callback( &d9w0::l2cap_cb, nullptr ), d9w1::server.notification_callback( &d9w1::l2cap_cb, nullptr ) );
}

__attribute__((noinline)) void vf_d9_input( int cfg, int who, const std::uint8_t* in, std::size_t in_size, std::uint8_t* out, std::size_t* out_size )
{
    D9_DISPATCH( d9w0::server.l2cap_input( in, in_size, out, *out_size, d9w0::conn( who ) ), d9w1::server.l2cap_input( in, in_size, out, *out_size, d9w1::conn( who ) ) );
}

__attribute__((noinline)) void vf_d9_output( int cfg, int who, std::uint8_t* out, std::size_t* out_size )
{
    D9_DISPATCH( d9w0::server.l2cap_output( out, *out_size, d9w0::conn( who ) ), d9w1::server.l2cap_output( out, *out_size, d9w1::conn( who ) ) );
}

__attribute__((noinline)) int vf_d9_notify( int cfg, int k, int indicate )
{
    int r = 0;
    D9_DISPATCH( r = d9w0::do_notify( k, indicate ), r = d9w1::do_notify( k, indicate ) );
    return r;
}

/* what the link layer's notification callback does for one connection */
__attribute__((noinline)) int vf_d9_queue( int cfg, int who, unsigned cccd_index, int indication )
{
    int r = 0;
    if ( indication )
        D9_DISPATCH( r = d9w0::conn( who ).queue_indication( cccd_index ), r = d9w1::conn( who ).queue_indication( cccd_index ) );
    else
        D9_DISPATCH( r = d9w0::conn( who ).queue_notification( cccd_index ), r = d9w1::conn( who ).queue_notification( cccd_index ) );
    return r;
}

__attribute__((noinline)) void vf_d9_set_security( int cfg, int who, int encrypted, int pairing )
{
    const bluetoe::connection_security_attributes s( encrypted != 0, static_cast< bluetoe::device_pairing_status >( pairing ) );
    D9_DISPATCH( d9w0::conn( who ).sec = s, d9w1::conn( who ).sec = s );
}

/* raw configuration bytes of one connection (7 fields -> 2 bytes) */
__attribute__((noinline)) unsigned vf_d9_get_config( int cfg, int who )
{
    const std::uint8_t* p = nullptr;
    D9_DISPATCH( p = d9w0::conn( who ).serialized_cccds_begin(), p = d9w1::conn( who ).serialized_cccds_begin() );
    return p[ 0 ] | ( p[ 1 ] << 8 );
}

__attribute__((noinline)) void vf_d9_set_config( int cfg, int who, unsigned v )
{
    std::uint8_t* p = nullptr;
    D9_DISPATCH( p = d9w0::conn( who ).serialized_cccds_begin(), p = d9w1::conn( who ).serialized_cccds_begin() );
    p[ 0 ] = v & 0xff;
    p[ 1 ] = ( v >> 8 ) & 0xff;
}

__attribute__((noinline)) void vf_d9_set_values( const std::uint8_t* src )
{
    d9_v0 = src[ 0 ]; d9_v1 = src[ 1 ]; d9_v2 = src[ 2 ]; d9_v3 = src[ 3 ]; d9_v4 = src[ 4 ]; d9_v5 = src[ 5 ]; d9_v6 = src[ 6 ];
}

__attribute__((noinline)) unsigned vf_d9_config_size( int cfg )
{
    unsigned r = 0;
    D9_DISPATCH( r = d9w0::conn_a.serialized_cccds_end() - d9w0::conn_a.serialized_cccds_begin(), r = d9w1::conn_a.serialized_cccds_end() - d9w1::conn_a.serialized_cccds_begin() );
    return r;
}

}
