// shim for C05 (option inheritance): 64 one-characteristic servers, every placement of the encryption options.
// No property logic here: the wrapper instantiates and forwards to the attribute's access function.
#include <bluetoe/server.hpp>
#include <bluetoe/service.hpp>
#include <bluetoe/characteristic.hpp>
#include <bluetoe/encryption.hpp>
#include <bluetoe/gap_service.hpp>

#define VF_EXPORT extern "C" __attribute__((noinline))

namespace {
    using suuid16  = bluetoe::service_uuid16< 0x1820 >;
}

// ------------------------------------------------------------------------------------------------------------
// option placements: one characteristic (value + CCCD) in one service in one server, an encryption option
// (0 none, 1 requires_encryption, 2 no_encryption_required, 3 may_require_encryption) on each of the three levels
namespace {
    std::uint8_t pl_value;

    template < int K > struct enc_opt;
    template <> struct enc_opt< 1 > { using type = bluetoe::requires_encryption; };
    template <> struct enc_opt< 2 > { using type = bluetoe::no_encryption_required; };
    template <> struct enc_opt< 3 > { using type = bluetoe::may_require_encryption; };

    template < int K, template < typename ... > class T, typename ... Fixed >
    struct with_opt { using type = T< Fixed..., typename enc_opt< K >::type >; };

    template < template < typename ... > class T, typename ... Fixed >
    struct with_opt< 0, T, Fixed... > { using type = T< Fixed... >; };

    template < int S, int V, int C >
    struct placement
    {
        using chr = typename with_opt< C, bluetoe::characteristic,
            bluetoe::characteristic_uuid16< 0xBB01 >,
            bluetoe::bind_characteristic_value< std::uint8_t, &pl_value >,
            bluetoe::notify >::type;
        using svc = typename with_opt< V, bluetoe::service, suuid16, chr >::type;
        using srv = typename with_opt< S, bluetoe::server, bluetoe::no_gap_service_for_gatt_servers, svc >::type;

        // attribute index: 0 service, 1 declaration, 2 value, 3 CCCD
        static int access( std::size_t index, int write, int encrypted, int pairing, std::uint8_t* buf, std::size_t* size, std::uint8_t* cccd )
        {
            const bluetoe::details::client_characteristic_configuration cc( cccd, 1 );
            const bluetoe::connection_security_attributes sec( encrypted != 0, static_cast< bluetoe::device_pairing_status >( pairing ) );
            auto args = write
                ? bluetoe::details::attribute_access_arguments::write( buf, buf + *size, 0, cc, sec, &server )
                : bluetoe::details::attribute_access_arguments::read( buf, buf + *size, 0, cc, sec, &server );

            const auto rc = srv::attribute_at( index ).access( args, index );
            *size = args.buffer_size;

            return static_cast< int >( rc );
        }

        static srv server;
    };

    template < int S, int V, int C > typename placement< S, V, C >::srv placement< S, V, C >::server;
}

VF_EXPORT void vf_c05_pl_set_value( unsigned v ) { pl_value = static_cast< std::uint8_t >( v ); }
VF_EXPORT unsigned vf_c05_pl_get_value() { return pl_value; }

// one server level option per build of this shim (-DVF_C05_S=0..3): 16 placements each, keeps the generated C small
#define PL_C( s, v, c ) case ( v * 4 + c ): return placement< s, v, c >::access( index, write, encrypted, pairing, buf, size, cccd );
#define PL_V( s, v )    PL_C( s, v, 0 ) PL_C( s, v, 1 ) PL_C( s, v, 2 ) PL_C( s, v, 3 )
#define PL_S( s )       PL_V( s, 0 ) PL_V( s, 1 ) PL_V( s, 2 ) PL_V( s, 3 )

// the attribute access function of attribute `index` of placement (VF_C05_S, v, c), placement_id = v * 4 + c, exactly as the ATT handlers call it
VF_EXPORT int vf_c05_pl_access( int placement_id, std::size_t index, int write, int encrypted, int pairing, std::uint8_t* buf, std::size_t* size, std::uint8_t* cccd )
{
    switch ( placement_id )
    {
        PL_S( VF_C05_S )
    }

    return -1;
}
