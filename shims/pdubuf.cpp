// shim: instantiates the real bluetoe::link_layer::ll_data_pdu_buffer<TransmitSize, ReceiveSize, Radio> on a stub radio.
// The stub radio only counts increment_receive_packet_counter()/increment_transmit_packet_counter() and has an
// empty lock_guard.  No property logic here: wrappers forward calls and copy results.
#include <bluetoe/ll_data_pdu_buffer.hpp>

namespace {
    template < std::size_t TransmitSize, std::size_t ReceiveSize >
    struct stub_radio : bluetoe::link_layer::ll_data_pdu_buffer< TransmitSize, ReceiveSize, stub_radio< TransmitSize, ReceiveSize > >
    {
        struct lock_guard { lock_guard() {} ~lock_guard() {} };

        void increment_receive_packet_counter()  { ++rx_counter; }
        void increment_transmit_packet_counter() { ++tx_counter; }

        stub_radio() : rx_counter( 0 ), tx_counter( 0 ) {}

        unsigned rx_counter;
        unsigned tx_counter;
    };

    stub_radio< 61, 61 >   b0;   // CFG 0
    stub_radio< 100, 100 > b1;   // CFG 1
    stub_radio< 29, 29 >   b2;   // CFG 2: both rings hold exactly one PDU
    stub_radio< 100, 61 >  b3;   // CFG 3
}

using bluetoe::link_layer::read_buffer;
using bluetoe::link_layer::write_buffer;

#define FOR_CFG( cfg, expr ) \
    switch ( cfg ) { \
    case 0: { auto& b = b0; expr; } break; \
    case 1: { auto& b = b1; expr; } break; \
    case 2: { auto& b = b2; expr; } break; \
    default: { auto& b = b3; expr; } break; \
    }

/* Buffers cross the C interface as byte offsets into raw_pdu_buffer() (the member buffer_); the internal empty PDU is
 * reported as offset -1.  Payload bytes are copied in and out with vf_pb_poke()/vf_pb_peek(). */
namespace {
    template < class B >
    long to_offset( B& b, const std::uint8_t* p, std::size_t size )
    {
        if ( p == nullptr && size == 0 )
            return -2;
        if ( p == &b.empty_[ 0 ] )
            return -1;
        return p - &b.buffer_[ 0 ];
    }
}

extern "C" {

__attribute__((noinline)) void vf_pb_reset( int cfg )
{
    FOR_CFG( cfg, b.reset_pdu_buffer(); b.rx_counter = 0; b.tx_counter = 0 );
}

__attribute__((noinline)) void vf_pb_set_max_sizes( int cfg, unsigned long rx, unsigned long tx )
{
    FOR_CFG( cfg, b.max_rx_size( rx ); b.max_tx_size( tx ) );
}

__attribute__((noinline)) unsigned long vf_pb_raw_size( int cfg )
{
    unsigned long r = 0; FOR_CFG( cfg, r = b.size ); return r;
}

__attribute__((noinline)) void vf_pb_poke( int cfg, long off, unsigned char v )
{
    FOR_CFG( cfg, b.buffer_[ off ] = v );
}

__attribute__((noinline)) unsigned char vf_pb_peek( int cfg, long off, unsigned long i )
{
    unsigned char r = 0; FOR_CFG( cfg, r = off == -1 ? b.empty_[ i ] : b.buffer_[ off + i ] ); return r;
}

/* ---- link layer (host) side */
__attribute__((noinline)) long vf_pb_allocate_transmit_buffer( int cfg, unsigned long size, unsigned long* out_size )
{
    read_buffer r{ nullptr, 0 };
    FOR_CFG( cfg, r = b.allocate_transmit_buffer( size ) );
    *out_size = r.size;
    long o = -2; FOR_CFG( cfg, o = to_offset( b, r.buffer, r.size ) ); return o;
}

__attribute__((noinline)) void vf_pb_commit_transmit_buffer( int cfg, long off, unsigned long size )
{
    FOR_CFG( cfg, b.commit_transmit_buffer( read_buffer{ &b.buffer_[ off ], size } ) );
}

__attribute__((noinline)) int vf_pb_pending_outgoing_data_available( int cfg )
{
    bool r = false; FOR_CFG( cfg, r = b.pending_outgoing_data_available() ); return r;
}

__attribute__((noinline)) long vf_pb_next_received( int cfg, unsigned long* out_size )
{
    write_buffer r;
    FOR_CFG( cfg, r = b.next_received() );
    *out_size = r.size;
    long o = -2; FOR_CFG( cfg, o = to_offset( b, r.buffer, r.size ) ); return o;
}

__attribute__((noinline)) void vf_pb_free_received( int cfg )
{
    FOR_CFG( cfg, b.free_received() );
}

/* ---- radio side */
__attribute__((noinline)) long vf_pb_allocate_receive_buffer( int cfg, unsigned long* out_size )
{
    read_buffer r{ nullptr, 0 };
    FOR_CFG( cfg, r = b.allocate_receive_buffer() );
    *out_size = r.size;
    long o = -2; FOR_CFG( cfg, o = to_offset( b, r.buffer, r.size ) ); return o;
}

__attribute__((noinline)) long vf_pb_received( int cfg, long off, unsigned long size, unsigned long* out_size )
{
    write_buffer r;
    FOR_CFG( cfg, r = b.received( read_buffer{ &b.buffer_[ off ], size } ) );
    *out_size = r.size;
    long o = -2; FOR_CFG( cfg, o = to_offset( b, r.buffer, r.size ) ); return o;
}

/* the entry point used by a radio when the CRC is valid but the MIC is not */
__attribute__((noinline)) long vf_pb_acknowledge( int cfg, long off, unsigned long size, unsigned long* out_size )
{
    write_buffer r;
    FOR_CFG( cfg, r = b.acknowledge( read_buffer{ &b.buffer_[ off ], size } ) );
    *out_size = r.size;
    long o = -2; FOR_CFG( cfg, o = to_offset( b, r.buffer, r.size ) ); return o;
}

__attribute__((noinline)) long vf_pb_next_transmit( int cfg, unsigned long* out_size )
{
    write_buffer r;
    FOR_CFG( cfg, r = b.next_transmit() );
    *out_size = r.size;
    long o = -2; FOR_CFG( cfg, o = to_offset( b, r.buffer, r.size ) ); return o;
}

__attribute__((noinline)) unsigned vf_pb_rx_counter( int cfg )
{
    unsigned r = 0; FOR_CFG( cfg, r = b.rx_counter ); return r;
}

__attribute__((noinline)) unsigned vf_pb_tx_counter( int cfg )
{
    unsigned r = 0; FOR_CFG( cfg, r = b.tx_counter ); return r;
}

}
