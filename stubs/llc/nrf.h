/* stubs/llc/nrf.h — /verif/stubs/nrf.h plus the CMSIS core intrinsics that bluetoe/bindings/nordic/nrf52/include/bluetoe/nrf52.hpp
 * names (interrupt masking, WFI), as no-ops on the host. Used by shim ll_c_nrf52 (C25) only; put before `stubs` on the include path. */
#ifndef VF_STUB_LLC_NRF_H
#define VF_STUB_LLC_NRF_H
#include "../nrf.h"
#include <stdint.h>

#ifndef VF_STUB_CMSIS_INTRINSICS
#define VF_STUB_CMSIS_INTRINSICS
static inline uint32_t __get_PRIMASK( void ) { return 0; }
static inline void     __set_PRIMASK( uint32_t v ) { (void)v; }
static inline void     __disable_irq( void ) {}
static inline void     __enable_irq( void ) {}
static inline void     __WFI( void ) {}
#endif

#endif
