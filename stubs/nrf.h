/* Host stand-in for Nordic's <nrf.h> (nRF52 MDK), for /verif only.
 *
 * It provides what bluetoe/bindings/nordic/include/bluetoe/nrf.hpp and
 * bluetoe/bindings/nordic/nrf52/security_tool_box.cpp need to compile UNCHANGED on x86-64:
 *   - the register block types, with the registers that code touches, as memory structs (same member names and
 *     32-bit register width as the MDK; offsets are NOT the hardware offsets - nothing in the code depends on them);
 *   - NRF_xxx "base addresses" pointing to ordinary globals (defined by the shim that links the unit);
 *   - the handful of bit-field constants used by inline functions of nrf.hpp.
 *
 * Register accesses:
 *   clang (-> LLVM IR -> generated C -> CBMC / native "gen" build): members are `volatile uint32_t` exactly as in the
 *     MDK; the IR contains `load volatile` / `store volatile`, which ll2c routes through VF_VLOAD / VF_VSTORE. A harness
 *     that emulates peripherals overrides these macros (see harness/c37_mmio.h) so that every access calls
 *     vf_mmio_load() / vf_mmio_store().
 *   g++ ("real" build for replay and the differential run): the members are proxy objects of the same size and layout
 *     whose assignment / conversion call the same two hooks. So both builds see the same peripheral emulation.
 *
 * 32-bit bus addresses: the code casts pointers to std::uint32_t for DMA pointer registers
 * (`reinterpret_cast< std::uint32_t >( ptr )`), which does not compile for a 64-bit host. For the code that follows
 * this header in a translation unit, `reinterpret_cast` is routed through vf_rcast<>: identical to reinterpret_cast,
 * except pointer -> std::uint32_t, which asks the peripheral emulation for a 32-bit bus address of that host object
 * (vf_mmio_addr32(), defined next to the hooks).
 */
#ifndef VF_STUB_NRF_H
#define VF_STUB_NRF_H

#include <stdint.h>

#ifdef __cplusplus
extern "C" {
#endif
/* peripheral emulation, defined by the harness */
uint32_t vf_mmio_load( const volatile void* reg );
void     vf_mmio_store( volatile void* reg, uint32_t value );
uint32_t vf_mmio_addr32( const volatile void* host_object );
#ifdef __cplusplus
}
#endif

#if defined( __cplusplus ) && !defined( __clang__ )
    struct vf_reg32
    {
        volatile uint32_t raw;
        vf_reg32& operator=( uint32_t v ) { vf_mmio_store( &raw, v ); return *this; }
        vf_reg32& operator=( const vf_reg32& v ) { vf_mmio_store( &raw, vf_mmio_load( &v.raw ) ); return *this; }
        operator uint32_t() const { return vf_mmio_load( &raw ); }
    };
    #define VF_REG vf_reg32
#else
    #define VF_REG volatile uint32_t
#endif

#define __IM
#define __OM
#define __IOM
#define __NVIC_PRIO_BITS 3

typedef struct { VF_REG TASKS_STARTECB, TASKS_STOPECB, EVENTS_ENDECB, EVENTS_ERRORECB, INTENSET, INTENCLR, ECBDATAPTR; } NRF_ECB_Type;
typedef struct { VF_REG TASKS_START, TASKS_STOP, EVENTS_VALRDY, SHORTS, INTENSET, INTENCLR, CONFIG, VALUE; } NRF_RNG_Type;
typedef struct { VF_REG TASKS_HFCLKSTART, TASKS_HFCLKSTOP, TASKS_LFCLKSTART, TASKS_LFCLKSTOP, EVENTS_HFCLKSTARTED, EVENTS_LFCLKSTARTED, LFCLKSRC; } NRF_CLOCK_Type;
typedef struct { VF_REG TASKS_START, TASKS_STOP, TASKS_CLEAR, EVTEN, EVTENSET, EVTENCLR, COUNTER, CC[ 4 ]; } NRF_RTC_Type;
typedef struct { VF_REG placeholder; } NRF_RADIO_Type;
typedef struct { VF_REG placeholder; } NRF_TIMER_Type;
typedef struct { VF_REG placeholder; } NRF_TEMP_Type;
typedef struct { VF_REG placeholder; } NRF_CCM_Type;
typedef struct { VF_REG placeholder; } NRF_AAR_Type;
typedef struct { VF_REG placeholder; } NRF_PPI_Type;
typedef struct { VF_REG placeholder; } NRF_GPIOTE_Type;
typedef struct { VF_REG placeholder; } NVIC_Type;

#ifdef __cplusplus
extern "C" {
#endif
extern NRF_ECB_Type    vf_nrf_ecb;
extern NRF_RNG_Type    vf_nrf_rng;
extern NRF_CLOCK_Type  vf_nrf_clock;
extern NRF_RTC_Type    vf_nrf_rtc0;
extern NRF_RADIO_Type  vf_nrf_radio;
extern NRF_TIMER_Type  vf_nrf_timer0, vf_nrf_timer1;
extern NRF_TEMP_Type   vf_nrf_temp;
extern NRF_CCM_Type    vf_nrf_ccm;
extern NRF_AAR_Type    vf_nrf_aar;
extern NRF_PPI_Type    vf_nrf_ppi;
extern NRF_GPIOTE_Type vf_nrf_gpiote;
extern NVIC_Type       vf_nvic;
#ifdef __cplusplus
}
#endif

#define NRF_ECB     ( &vf_nrf_ecb )
#define NRF_RNG     ( &vf_nrf_rng )
#define NRF_CLOCK   ( &vf_nrf_clock )
#define NRF_RTC0    ( &vf_nrf_rtc0 )
#define NRF_RADIO   ( &vf_nrf_radio )
#define NRF_TIMER0  ( &vf_nrf_timer0 )
#define NRF_TIMER1  ( &vf_nrf_timer1 )
#define NRF_TEMP    ( &vf_nrf_temp )
#define NRF_CCM     ( &vf_nrf_ccm )
#define NRF_AAR     ( &vf_nrf_aar )
#define NRF_PPI     ( &vf_nrf_ppi )
#define NRF_GPIOTE  ( &vf_nrf_gpiote )
#define NVIC        ( &vf_nvic )

/* bit fields used by inline functions in nrf.hpp (values as in the MDK) */
#define RTC_EVTEN_COMPARE0_Pos       (16UL)
#define RTC_EVTEN_COMPARE0_Enabled   (1UL)
#define RTC_EVTEN_COMPARE1_Pos       (17UL)
#define RTC_EVTEN_COMPARE1_Enabled   (1UL)
#define RTC_EVTEN_OVRFLW_Pos         (1UL)
#define RTC_EVTEN_OVRFLW_Enabled     (1UL)
#define CLOCK_LFCLKSRCCOPY_SRC_Pos   (0UL)
#define CLOCK_LFCLKSRCCOPY_SRC_RC    (0UL)
#define CLOCK_LFCLKSRCCOPY_SRC_Xtal  (1UL)
#define CLOCK_LFCLKSRCCOPY_SRC_Synth (2UL)

#ifdef __cplusplus
    template < class To, class From >
    struct vf_rcast_impl
    {
        static To cast( From v ) { return ( To )v; }
    };

    template < class Pointee >
    struct vf_rcast_impl< uint32_t, Pointee* >
    {
        static uint32_t cast( Pointee* p ) { return vf_mmio_addr32( ( const volatile void* )p ); }
    };

    template < class To, class From >
    inline To vf_rcast( From v ) { return vf_rcast_impl< To, From >::cast( v ); }

    #define reinterpret_cast vf_rcast
#endif

#endif
