"""
vf.core — driver for bounded symbolic checking of bluetoe (see /verif/DESIGN.md).

pipeline per run (everything is rebuilt from /repo's current working tree):
  shim.cpp (+ repo .cpp TUs) --clang++-14 -O1 -emit-llvm--> .ll --llvm-link/opt--> unit.ll --ll2c--> unit.c
  harness.c + unit.c --goto-cc--> case.gb --cbmc--> verdict per assertion
  harness.c + unit.c --clang--> gen binary   }  differential run (translation validation)
  harness.c + shim.cpp --g++ -fsanitize--> real binary }  + replay of solver counterexamples
"""
import os, re, sys, json, time, shutil, hashlib, subprocess, resource, random, traceback
from concurrent.futures import ThreadPoolExecutor, as_completed
from . import ll2c

VERIF = os.path.dirname(os.path.dirname(os.path.abspath(__file__)))
REPO = os.environ.get('VF_REPO', '/repo')
NPROC = int(os.environ.get('VF_JOBS', '16'))

INCLUDES = [
    '-I' + REPO,
    '-I' + REPO + '/bluetoe/link_layer/include',
    '-I' + REPO + '/bluetoe/utility/include',
    '-I' + REPO + '/bluetoe/sm/include',
    '-I' + REPO + '/bluetoe/link_layer',
    '-I' + REPO + '/bluetoe/services',
    '-I' + VERIF + '/shims',
    '-I' + VERIF + '/harness',
]
CXX_COMMON = ['-std=c++14', '-O1', '-DNDEBUG', '-DBLUETOE_VERIF', '-fno-exceptions', '-fno-rtti', '-fno-threadsafe-statics',
              '-fno-access-control', '-include', 'iterator', '-include', 'array', '-include', 'tuple',
              '-include', 'cstring', '-include', 'algorithm', '-include', 'cstdint', '-include', 'cstddef', '-w']
CLANG_IR = ['clang++-14', '-S', '-emit-llvm', '-fno-vectorize', '-fno-slp-vectorize', '-fno-unroll-loops',
            '-fno-discard-value-names'] + CXX_COMMON
GXX_REAL = ['g++', '-g', '-fsanitize=address,undefined', '-fno-sanitize-recover=undefined', '-fno-omit-frame-pointer'] + CXX_COMMON

CBMC_FLAGS = ['--unwinding-assertions', '--pointer-overflow-check', '--undefined-shift-check',
              '--signed-overflow-check', '--drop-unused-functions']


class Unit:
    """a shim translation unit plus the repo TUs it links"""
    def __init__(self, name, shim=None, repo_tus=(), flags=(), includes=(), description='', resumable=(), clang_flags=(), yield_filter=None, stubs=()):
        self.name = name
        self.shim = shim or ('shims/%s.cpp' % name)
        self.repo_tus = list(repo_tus)
        self.flags = list(flags)
        self.includes = list(includes)
        self.description = description
        self.clang_flags = list(clang_flags)   # flags for the IR build only (e.g. -mllvm -inline-threshold=N)
        self.stubs = list(stubs)   # regexes on IR function names: body emitted as NAME__real, calls go to NAME which the harness defines (contract stubs)
        self.yield_filter = yield_filter   # regex on 'ctype:address expression'; only matching accesses are scheduling points
        self.resumable = list(resumable)   # regexes of generated-C function names that also get a resumable rendering (interleaving harnesses)


class Harness:
    def __init__(self, name, unit, src, cases, unwind=8, unwindset=(), timeout=300, mem_gb=16, object_bits=10,
                 flags=(), cbmc_flags=(), diff_iters=300, diff_cases=4, description='', bounds='', sat=None,
                 extra_c=(), gen_only=False):
        self.name = name; self.unit = unit; self.src = src
        self._cases = cases            # list of dicts or callable(tier) -> list of dicts
        self.unwind = unwind; self.unwindset = list(unwindset)
        self.timeout = timeout; self.mem_gb = mem_gb; self.object_bits = object_bits
        self.flags = list(flags); self.cbmc_flags = list(cbmc_flags)
        self.diff_iters = diff_iters; self.diff_cases = diff_cases
        self.description = description; self.bounds = bounds; self.sat = sat
        self.extra_c = list(extra_c)
        # gen_only: the harness drives the resumable rendering (NAME__step), which exists only in the generated C; replay then
        # runs on the natively compiled generated C (itself validated against the real build by the unit's sequential harnesses)
        self.gen_only = gen_only

    def cases(self, tier):
        c = self._cases(tier) if callable(self._cases) else self._cases
        return [dict(x) for x in c]


class Property:
    def __init__(self, id, harnesses, functions=(), bounds='', assumptions=(), explanation='', trusted=(), outside=()):
        self.id = id; self.harnesses = harnesses
        self.functions = list(functions); self.bounds = bounds
        self.assumptions = list(assumptions); self.explanation = explanation
        self.trusted = list(trusted); self.outside = list(outside)


# ------------------------------------------------------------------------------------------------ helpers
_libc = None
def _pdeathsig():
    # children die with the driver (a killed ./check must not leave solver processes behind)
    global _libc
    try:
        import ctypes
        if _libc is None: _libc = ctypes.CDLL('libc.so.6', use_errno=True)
        _libc.prctl(1, 9)      # PR_SET_PDEATHSIG, SIGKILL
    except Exception:
        pass


def run(cmd, cwd=None, timeout=None, mem_gb=None, env=None, stdin=None, rusage=False):
    """returns (rc | 'timeout' | 'oserror', output, wall seconds[, peak rss kB of the child if rusage])"""
    import tempfile, threading
    def limits():
        if mem_gb:
            b = int(mem_gb * (1 << 30))
            resource.setrlimit(resource.RLIMIT_AS, (b, b))
        os.setsid()
        _pdeathsig()
    t0 = time.time()
    tf = tempfile.TemporaryFile()
    try:
        p = subprocess.Popen(cmd, cwd=cwd, stdout=tf, stderr=subprocess.STDOUT, env=env, preexec_fn=limits, stdin=subprocess.DEVNULL)
    except OSError as e:
        return ('oserror', str(e), 0.0, 0) if rusage else ('oserror', str(e), 0.0)
    timed_out = []
    def kill():
        timed_out.append(1)
        try: os.killpg(p.pid, 9)
        except Exception: pass
    timer = threading.Timer(timeout, kill) if timeout else None
    if timer: timer.start()
    try:
        _, status, ru = os.wait4(p.pid, 0)
    finally:
        if timer: timer.cancel()
    p.returncode = os.waitstatus_to_exitcode(status)
    tf.seek(0); out = tf.read().decode('utf-8', 'replace'); tf.close()
    rc = 'timeout' if timed_out else p.returncode
    dt = time.time() - t0
    return (rc, out, dt, ru.ru_maxrss) if rusage else (rc, out, dt)


class cpu_slot:
    """machine-wide limit on concurrently running solver / native jobs (several ./check runs may be active at once):
    one flock'ed file per core under /tmp/vf_slots; waiting for a slot does not count against a job's timeout"""
    N = int(os.environ.get('VF_SLOTS', str(os.cpu_count() or 16)))
    def __enter__(self):
        import fcntl
        d = '/tmp/vf_slots'
        os.makedirs(d, exist_ok=True)
        order = list(range(self.N)); random.shuffle(order)
        while True:
            for i in order:
                f = open(os.path.join(d, 'slot%d' % i), 'w')
                try:
                    fcntl.flock(f, fcntl.LOCK_EX | fcntl.LOCK_NB)
                    self.f = f
                    return self
                except OSError:
                    f.close()
            time.sleep(0.25)
    def __exit__(self, *a):
        try: self.f.close()
        except Exception: pass


def sh(cmd, **kw):
    rc, out, dt = run(cmd, **kw)
    if rc != 0:
        raise BuildError('command failed (%s): %s\n%s' % (rc, ' '.join(cmd), out[-4000:]))
    return out


class BuildError(Exception):
    pass


def repo_state():
    try:
        head = subprocess.check_output(['git', '-C', REPO, 'rev-parse', 'HEAD']).decode().strip()
        dirty = subprocess.check_output(['git', '-C', REPO, 'status', '--porcelain', '--untracked-files=no']).decode().strip()
        return head + ('+dirty' if dirty else '')
    except Exception:
        return 'unknown'


# ------------------------------------------------------------------------------------------------ unit build
class Built:
    pass


def build_unit(unit, work):
    """returns Built(c, real_objs, functions, ir_lines, t)"""
    d = os.path.join(work, 'unit_' + unit.name)
    os.makedirs(d, exist_ok=True)
    t0 = time.time()
    srcs = [os.path.join(VERIF, unit.shim)] + [os.path.join(REPO, t) for t in unit.repo_tus]
    inc = INCLUDES + ['-I' + (i if os.path.isabs(i) else os.path.join(VERIF, i)) for i in unit.includes]
    lls = []; objs = []
    jobs = []
    for i, s in enumerate(srcs):
        ll = os.path.join(d, 'tu%d.ll' % i); o = os.path.join(d, 'tu%d.o' % i)
        lls.append(ll); objs.append(o)
        jobs.append(CLANG_IR + unit.flags + unit.clang_flags + inc + [s, '-o', ll])
        jobs.append(GXX_REAL + unit.flags + inc + ['-c', s, '-o', o])
    with ThreadPoolExecutor(max_workers=min(NPROC, len(jobs))) as ex:
        for f in [ex.submit(sh, j) for j in jobs]:
            f.result()
    linked = os.path.join(d, 'linked.ll')
    if len(lls) > 1:
        sh(['llvm-link-14', '-S', '-non-global-value-max-name-size=65536'] + lls + ['-o', linked])
    else:
        shutil.copy(lls[0], linked)
    opt = os.path.join(d, 'unit.ll')
    sh(['opt-14', '-S', '-O1', '-non-global-value-max-name-size=65536', '-vectorize-loops=false', '-vectorize-slp=false', '-unroll-threshold=0', linked, '-o', opt])
    text = open(opt).read()
    try:
        ctext, info = ll2c.translate(text, resumable=unit.resumable, yield_filter=unit.yield_filter, stubs=unit.stubs)
    except Exception as e:
        raise BuildError('ll2c failed on unit %s: %s\n%s' % (unit.name, e, traceback.format_exc()[-1500:]))
    cpath = os.path.join(d, 'unit.c')
    open(cpath, 'w').write(ctext)
    b = Built()
    b.c = cpath; b.real_objs = objs; b.functions = info['functions']; b.stubbed = info.get('stubbed', []); b.ir_lines = text.count('\n')
    b.c_lines = ctext.count('\n'); b.dir = d; b.t = time.time() - t0
    b.defined = set(re.findall(r'^define [^@]*@("?[^"(\s]+"?)\(', text, re.M))
    return b


def kf_ids_in(src_text):
    return sorted(set(re.findall(r'VF_KNOWN_FINDING\(\s*([A-Za-z0-9_]+)', src_text)))


def load_known():
    """known_findings.json plus known_findings.d/*.json (same format), merged"""
    import glob
    res = {'findings': [], 'fixed': []}
    files = [os.path.join(VERIF, 'known_findings.json')] + sorted(glob.glob(os.path.join(VERIF, 'known_findings.d', '*.json')))
    for p in files:
        if not os.path.exists(p): continue
        d = json.load(open(p))
        res['findings'] += d.get('findings', [])
        res['fixed'] += d.get('fixed', [])
    return res


# ------------------------------------------------------------------------------------------------ cbmc
RES = re.compile(r'^\[(?P<name>[^\]]+)\] line (?P<line>\d+) (?P<desc>.*): (?P<st>SUCCESS|FAILURE|UNKNOWN)$')


def parse_results(out):
    res = []
    for l in out.split('\n'):
        m = RES.match(l.strip())
        if m:
            res.append((m.group('name'), int(m.group('line')), m.group('desc'), m.group('st')))
    return res


def classify(name, desc):
    if 'VF_WITNESS' in desc: return 'witness'
    if 'VFCHECK' in desc: return 'check'
    if '.unwind.' in name or 'unwinding assertion' in desc: return 'unwind'
    if 'pointer_arithmetic' in name or '.pointer_primitives.' in name: return 'ptrarith'
    if '.overflow.' in name or 'undefined-shift' in name or 'arithmetic overflow' in desc: return 'arith'
    if 'llvm unreachable' in desc or 'llvm.trap' in desc or 'llvm.assume' in desc: return 'unreachable'
    return 'memory'


def defs(params):
    # keys starting with '_' are driver options of the case (e.g. _unwind), not harness parameters
    return ['-D%s=%s' % (k, v) for k, v in sorted(params.items()) if not k.startswith('_')]


def case_key(params):
    return ','.join('%s=%s' % (k, params[k]) for k in sorted(params)) or 'default'


def run_case(h, built, work, params, kfmodes, tag, trace=False, no_witness=False, only_property=None):
    """compile + run cbmc for one case. returns dict"""
    with cpu_slot():
        return run_case_(h, built, work, params, kfmodes, tag, trace, no_witness, only_property)


def run_case_(h, built, work, params, kfmodes, tag, trace=False, no_witness=False, only_property=None):
    hid = hashlib.md5((h.name + case_key(params) + tag).encode()).hexdigest()[:12]
    gb = os.path.join(work, 'c_%s.gb' % hid)
    d = dict(params); d.update({'KF_' + k: v for k, v in kfmodes.items()})
    cc = ['goto-cc', '-DVF_CBMC', '-I' + os.path.join(VERIF, 'harness'), '-o', gb, built.c,
          os.path.join(VERIF, h.src), os.path.join(VERIF, 'harness', 'vf_cbmc.c')] + \
         [os.path.join(VERIF, x) for x in h.extra_c] + defs(d) + h.flags
    if no_witness: cc.append('-DVF_NO_WITNESS')
    rc, out, dt0 = run(cc, timeout=600)
    if rc != 0:
        return {'status': 'error', 'detail': 'goto-cc failed: ' + out[-3000:], 'params': params, 'wall': dt0, 'rss_kb': 0}
    cmd = ['cbmc', gb, '--function', 'harness', '--unwind', str(params.get('_unwind', h.unwind)), '--object-bits', str(h.object_bits)] + CBMC_FLAGS + h.cbmc_flags
    uws = list(h.unwindset) + ([params['_unwindset']] if params.get('_unwindset') else [])
    if uws:
        cmd += ['--unwindset', ','.join(uws)]
    backend = params.get('_backend')
    if trace and only_property:
        # counterexample extraction: the plain SAT back end on the one failing assertion, without formula slicing (slicing drops the
        # input log from the trace). Finding a model is easy even where proving the other assertions needs the SMT back end
        cmd += ['--property', only_property]
        backend = None
    if backend == 'cvc5int':
        # SMT back end with bit-vector arithmetic solved as modular integer arithmetic (tools/smtshim/cvc5 adds
        # --solve-bv-as-int=sum): decides multiply/divide-by-constant kernels that bit blasting does not
        cmd += ['--cvc5', '--slice-formula']
    elif backend == 'cadical':
        cmd += ['--sat-solver', 'cadical']
    elif backend == 'kissat':
        cmd += ['--external-sat-solver', 'kissat']
    elif h.sat:
        cmd += h.sat
    if trace:
        cmd += ['--trace', '--stop-on-fail']
    env = dict(os.environ, PATH=os.path.join(VERIF, 'tools', 'smtshim') + os.pathsep + os.environ.get('PATH', ''))
    rc, out, dt, rss = run(cmd, timeout=h.timeout, mem_gb=h.mem_gb, rusage=True, env=env)
    try: os.unlink(gb)
    except OSError: pass
    r = {'params': params, 'wall': dt + dt0, 'rss_kb': rss, 'out': out if trace else None}
    if rc == 'timeout':
        r['status'] = 'timeout'; r['detail'] = 'cbmc exceeded %ds' % h.timeout; return r
    res = parse_results(out)
    if not res or ('VERIFICATION SUCCESSFUL' not in out and 'VERIFICATION FAILED' not in out):
        r['status'] = 'error'; r['detail'] = 'no verdict from cbmc (rc=%s): %s' % (rc, out[-1500:]); return r
    r['results'] = res
    fails = [(n, l, ds, classify(n, ds)) for n, l, ds, st in res if st == 'FAILURE']
    r['n_assert'] = len(res)
    r['witness'] = any(k == 'witness' for _, _, _, k in fails)
    r['fails'] = [f for f in fails if f[3] != 'witness']
    r['status'] = 'fail' if r['fails'] else 'ok'
    return r


def extract_inputs(trace_out):
    vals = {}
    for m in re.finditer(r'vf_input_log\[(\d+)l?\]=(\d+)', trace_out):
        vals[int(m.group(1))] = int(m.group(2))
    n = 0
    for m in re.finditer(r'^\s*vf_input_n=(\d+)', trace_out, re.M):
        n = max(n, int(m.group(1)))
    n = max(n, (max(vals) + 1) if vals else 0)
    return [vals.get(i) for i in range(n)]     # None: the input is not in the trace (sliced away, any value will do)


def violated_property(trace_out):
    m = re.search(r'Violated property:\s*\n\s*(.*)\n\s*(.*)\n', trace_out)
    return (m.group(1).strip() + ' :: ' + m.group(2).strip()) if m else ''


# ------------------------------------------------------------------------------------------------ native builds
def build_native(h, built, work):
    """returns (gen_bin, real_bin)"""
    d = os.path.join(work, 'native_' + h.name)
    os.makedirs(d, exist_ok=True)
    hs = os.path.join(VERIF, h.src)
    rt = os.path.join(VERIF, 'harness', 'vf_native.c')
    inc = ['-I' + os.path.join(VERIF, 'harness')]
    extra = [os.path.join(VERIF, x) for x in h.extra_c]
    gen = os.path.join(d, 'gen'); real = os.path.join(d, 'real')
    j1 = ['clang-14', '-O1', '-w', '-fwrapv', '-fno-strict-aliasing'] + inc + h.flags + [built.c, hs, rt] + extra + ['-o', gen]
    ho = os.path.join(d, 'h.o'); ro = os.path.join(d, 'rt.o')
    eo = [os.path.join(d, 'e%d.o' % i) for i in range(len(extra))]
    if h.gen_only:
        sh(['clang-14', '-g', '-O1', '-w', '-fwrapv', '-fno-strict-aliasing', '-fsanitize=address,undefined', '-fno-sanitize-recover=undefined'] + inc + h.flags + [built.c, hs, rt] + extra + ['-o', gen])
        return gen, gen
    def real_build():
        sh(['gcc', '-g', '-O1', '-w', '-fsanitize=address,undefined', '-fno-sanitize-recover=undefined', '-DVF_REAL'] + inc + h.flags + ['-c', hs, '-o', ho])
        sh(['gcc', '-g', '-O1', '-w', '-DVF_REAL'] + inc + ['-c', rt, '-o', ro])
        for x, o in zip(extra, eo):
            sh(['gcc', '-g', '-O1', '-w', '-DVF_REAL'] + inc + h.flags + ['-c', x, '-o', o])
        sh(['g++', '-fsanitize=address,undefined', ho, ro] + eo + built.real_objs + [os.path.join(VERIF, 'harness', 'vf_real_ctors.c'), '-o', real])
    with ThreadPoolExecutor(max_workers=2) as ex:
        f1 = ex.submit(sh, j1); f2 = ex.submit(real_build)
        f1.result(); f2.result()
    return gen, real


NATIVE_ENV = dict(os.environ, ASAN_OPTIONS='exitcode=42:detect_leaks=0:abort_on_error=0', UBSAN_OPTIONS='halt_on_error=1:exitcode=42')


def diff_run(h, gen, real, cases, kfmodes, seed):
    """differential run of generated C against the real build; returns (n_iter, n_skip, mismatches[list])"""
    if h.gen_only:
        return 0, 0, 0, []
    rnd = random.Random(seed)
    pick = cases if len(cases) <= h.diff_cases else rnd.sample(cases, h.diff_cases)
    total = 0; skipped = 0; mism = []; crashes = 0
    def one(params):
        args = ['diff', str(seed), str(h.diff_iters)] + ['%s=%s' % kv for kv in params.items() if not kv[0].startswith('_')] + ['KF_%s=%s' % kv for kv in kfmodes.items()]
        with cpu_slot():
            rc1, o1, _ = run([gen] + args, timeout=300, env=NATIVE_ENV)
            rc2, o2, _ = run([real] + args, timeout=600, env=NATIVE_ENV)
        return params, rc1, o1, rc2, o2
    with ThreadPoolExecutor(max_workers=min(NPROC, max(1, len(pick)))) as ex:
        for params, rc1, o1, rc2, o2 in ex.map(one, pick):
            l1 = [l for l in o1.split('\n') if re.match(r'^\d+ ', l)]
            l2 = [l for l in o2.split('\n') if re.match(r'^\d+ ', l)]
            total += len(l1)
            skipped += sum(1 for l in l1 if l.endswith('SKIP'))
            crashes += sum(1 for l in l2 if l.endswith('CRASH'))
            if rc1 != 0 or rc2 != 0 or len(l1) != h.diff_iters:
                mism.append({'case': params, 'detail': 'native run failed rc=%s/%s: %s %s' % (rc1, rc2, o1[-300:], o2[-300:])})
            elif l1 != l2:
                for a, b in zip(l1, l2):
                    if a != b:
                        mism.append({'case': params, 'generated': a, 'real': b}); break
    return total, skipped, crashes, mism


def write_replay(prop_id, h, params, kfmodes, inputs, what):
    os.makedirs(os.path.join(VERIF, 'replays'), exist_ok=True)
    body = ['# property %s harness %s' % (prop_id, h.name), '# violated: %s' % what.replace('\n', ' ')]
    for k, v in sorted(params.items()):
        if not k.startswith('_'): body.append('case %s %s' % (k, v))
    for k, v in sorted(kfmodes.items()): body.append('case KF_%s %s' % (k, v))
    for v in inputs: body.append('any' if v is None else 'in %d' % v)
    text = '\n'.join(body) + '\n'
    hh = hashlib.md5(text.encode()).hexdigest()[:10]
    path = os.path.join(VERIF, 'replays', '%s-%s-%s.replay' % (prop_id, h.name, hh))
    open(path, 'w').write(text)
    return path


def replay(real_bin, path, timeout=120):
    """returns (confirmed, kind, text)"""
    rc, out, dt = run([real_bin, 'replay', path], timeout=timeout, env=NATIVE_ENV)
    if rc == 0: return False, 'passed', out[-800:]
    if rc == 1: return True, 'check-failed', out[-1500:]
    if rc == 3: return False, 'assumption-mismatch', out[-800:]
    if rc == 'timeout': return True, 'hang', 'replay did not terminate within %ds' % timeout
    return True, 'crash-or-sanitizer(rc=%s)' % rc, out[-2500:]


# ------------------------------------------------------------------------------------------------ property run
def check_property(prop, tier, seed, replay_path=None, only=None, keep=False, verbose=True):
    t_start = time.time()
    work = os.path.join(VERIF, '.work', '%s-%d' % (prop.id, os.getpid()))
    shutil.rmtree(work, ignore_errors=True)
    os.makedirs(work)
    known = load_known()
    open_kf = {f['id']: f for f in known.get('findings', []) if f['property'] == prop.id}
    log = lambda *a: (print(*a, flush=True) if verbose else None)
    ev = {'harnesses': [], 'queries': 0, 'queries_ok': 0, 'queries_fail': 0, 'queries_inconclusive': 0, 'nontrivial': 0,
          'obligations': 0, 'discharged': 0, 'solver_wall_s': 0.0, 'peak_rss_mb': 0, 'samples': [], 'diff_iterations': 0, 'diff_mismatches': 0,
          'functions': set(), 'units': {}}
    violations = []       # (harness, params, what, replay_path, confirmed, kind)
    known_hits = []       # finding ids still reproducing
    ub_candidates = []
    unconfirmed = []
    inconclusive = []
    exit_code = 0
    try:
        built_units = {}
        hs = [h for h in prop.harnesses if not only or h.name in only]
        units = {}
        for h in hs: units[h.unit.name] = h.unit
        with ThreadPoolExecutor(max_workers=max(1, len(units))) as ex:
            futs = {ex.submit(build_unit, u, work): n for n, u in units.items()}
            for f in as_completed(futs):
                built_units[futs[f]] = f.result()
        for n, b in built_units.items():
            ev['units'][n] = {'shim': units[n].shim, 'repo_tus': units[n].repo_tus, 'ir_lines': b.ir_lines, 'c_lines': b.c_lines,
                              'functions_translated': len(b.functions), 'build_s': round(b.t, 1)}
            log('[%s] unit %s: %d IR lines -> %d C lines, %d functions (%.1fs)' % (prop.id, n, b.ir_lines, b.c_lines, len(b.functions), b.t))

        natives = {}
        with ThreadPoolExecutor(max_workers=max(1, min(4, len(hs)))) as ex:
            futs = {ex.submit(build_native, h, built_units[h.unit.name], work): h for h in hs}
            # cbmc jobs start meanwhile
            jobs = []
            for h in hs:
                src_text = open(os.path.join(VERIF, h.src)).read()
                ids = kf_ids_in(src_text)
                excl = {i: (1 if i in open_kf else 0) for i in ids}
                for params in h.cases(tier):
                    jobs.append((h, params, excl, 'main'))
                for i in ids:
                    if i in open_kf:
                        flt = open_kf[i].get('cases', {})
                        only_modes = {j: (2 if j == i else (1 if j in open_kf else 0)) for j in ids}
                        sel = [p for p in h.cases(tier) if all(str(p.get(k)) == str(v) or (isinstance(v, list) and p.get(k) in v) for k, v in flt.items())]
                        for params in sel[: open_kf[i].get('max_cases', 4)]:
                            jobs.append((h, params, only_modes, 'kf:' + i))
            if replay_path:
                jobs = []
            results = []
            with ThreadPoolExecutor(max_workers=NPROC) as cx:
                cf = {cx.submit(run_case, h, built_units[h.unit.name], work, params, modes, tag): (h, params, modes, tag) for h, params, modes, tag in jobs}
                for f in as_completed(cf):
                    results.append((cf[f], f.result()))
                    if os.environ.get('VF_VERBOSE'):
                        hh, pp, _, tg = cf[f]; rr = f.result()
                        log('   case %s[%s] %s: %s %.1fs %dMB' % (hh.name, case_key(pp), tg, rr['status'], rr['wall'], rr['rss_kb'] // 1024))
            for f in as_completed(futs):
                natives[futs[f].name] = f.result()

        if replay_path:
            txt = open(replay_path).read()
            m = re.search(r'# property \S+ harness (\S+)', txt)
            hn = m.group(1) if m else hs[0].name
            conf, kind, text = replay(natives[hn][1], replay_path)
            print(text)
            print('replay %s: %s (%s)' % (replay_path, 'VIOLATION REPRODUCED' if conf else 'not reproduced', kind))
            return 1 if conf else 0

        # ---- evaluate solver results
        per_h = {}
        for (h, params, modes, tag), r in results:
            ph = per_h.setdefault(h.name, {'cases': 0, 'ok': 0, 'fail': 0, 'inconclusive': 0, 'wall': 0.0, 'rss': 0, 'assertions': 0})
            if tag == 'main':
                ev['queries'] += 1; ph['cases'] += 1
                ev['solver_wall_s'] += r['wall']; ph['wall'] += r['wall']
                ev['peak_rss_mb'] = max(ev['peak_rss_mb'], r['rss_kb'] // 1024); ph['rss'] = max(ph['rss'], r['rss_kb'] // 1024)
            if r['status'] in ('timeout', 'error'):
                if tag == 'main':
                    ev['queries_inconclusive'] += 1; ph['inconclusive'] += 1
                    inconclusive.append('%s[%s]: %s' % (h.name, case_key(params), r['detail'][:1500]))
                continue
            if tag == 'main':
                ev['obligations'] += r['n_assert'] - 1
                ph['assertions'] += r['n_assert'] - 1
                if r['witness']: ev['nontrivial'] += 1
                else: inconclusive.append('%s[%s]: reachability witness not reachable (vacuous harness)' % (h.name, case_key(params)))
            if r['status'] == 'ok':
                if tag == 'main':
                    ev['queries_ok'] += 1; ph['ok'] += 1; ev['discharged'] += r['n_assert'] - 1
                    if len(ev['samples']) < 6:
                        ev['samples'].append({'harness': h.name, 'case': params, 'assertions_proved': r['n_assert'] - 1,
                                              'witness_reachable': r['witness'], 'wall_s': round(r['wall'], 1), 'rss_mb': r['rss_kb'] // 1024})
                continue
            # failure: get a trace and replay it
            kinds = set(k for _, _, _, k in r['fails'])
            hard = [f for f in r['fails'] if f[3] not in ('ptrarith',)]
            if tag == 'main':
                ev['discharged'] += r['n_assert'] - 1 - len(r['fails'])
            if not hard:
                ub_candidates.append('%s[%s]: %s' % (h.name, case_key(params), '; '.join(f[2] for f in r['fails'][:3])))
                if tag == 'main': ev['queries_ok'] += 1; ph['ok'] += 1
                continue
            if tag == 'main':
                ev['queries_fail'] += 1; ph['fail'] += 1
            # (with --property the build keeps its WITNESS assertions: removing them would renumber the assertions)
            onlyp = hard[0][0] if params.get('_backend') else None
            tr = run_case(h, built_units[h.unit.name], work, params, modes, tag + 'trace', trace=True, no_witness=not onlyp, only_property=onlyp)
            inputs = extract_inputs(tr.get('out') or '')
            what = violated_property(tr.get('out') or '') or '; '.join(f[2] for f in hard[:3])
            rp = write_replay(prop.id, h, params, modes, inputs, what)
            conf, kind, text = replay(natives[h.name][1], rp)
            if tag.startswith('kf:'):
                fid = tag[3:]
                if fid not in [k for k, _ in known_hits]:
                    known_hits.append((fid, {'case': params, 'what': what, 'replay': rp, 'confirmed_on_real_build': conf, 'replay_kind': kind}))
                continue
            entry = {'harness': h.name, 'case': params, 'failed': [f[2] for f in hard[:5]], 'what': what, 'replay': rp,
                     'confirmed_on_real_build': conf, 'replay_kind': kind, 'replay_output': text[-600:], 'kinds': sorted(kinds)}
            if conf:
                violations.append(entry)
            else:
                # a counterexample that does not reproduce against the real build means the encoding, a stub or the harness is
                # wrong: never reported as a violation of the property, but the run is not a pass either
                unconfirmed.append(entry)
                inconclusive.append('%s[%s]: solver counterexample did not reproduce on the real build (%s): %s; replay=%s' % (h.name, case_key(params), kind, what[:300], rp))
        for h in hs:
            ph = per_h.get(h.name, {})
            ev['harnesses'].append({'name': h.name, 'unit': h.unit.name, 'source': h.src, 'description': h.description, 'bounds': h.bounds,
                                    'unwind': h.unwind, 'unwindset': h.unwindset, 'cases': ph.get('cases', 0), 'ok': ph.get('ok', 0),
                                    'failed': ph.get('fail', 0), 'inconclusive': ph.get('inconclusive', 0),
                                    'assertions': ph.get('assertions', 0), 'solver_wall_s': round(ph.get('wall', 0), 1), 'peak_rss_mb': ph.get('rss', 0)})

        # ---- translation validation
        diff_problems = []
        with ThreadPoolExecutor(max_workers=max(1, min(4, len(hs)))) as ex:
            def dj(h):
                src_text = open(os.path.join(VERIF, h.src)).read()
                ids = kf_ids_in(src_text)
                excl = {i: (1 if i in open_kf else 0) for i in ids}
                return h, diff_run(h, natives[h.name][0], natives[h.name][1], h.cases(tier), excl, seed)
            for h, (total, skipped, crashes, mism) in ex.map(dj, hs):
                ev['diff_iterations'] += total
                ev.setdefault('diff_skipped', 0); ev['diff_skipped'] += skipped
                ev['diff_mismatches'] += len(mism)
                for m_ in mism[:3]:
                    diff_problems.append('%s: %s' % (h.name, json.dumps(m_)[:600]))

        # ---- verdict
        for fid, info in known_hits:
            print('KNOWN-FINDING: property=%s %s [%s] replay=%s' % (prop.id, open_kf[fid]['description'], fid, info['replay']))
        for fid in open_kf:
            if fid not in [k for k, _ in known_hits]:
                log('[%s] note: known finding %s did not reproduce in this tier (stale entry or tier does not cover its cases)' % (prop.id, fid))
        for u in ub_candidates:
            print('UB-CANDIDATE: property=%s %s' % (prop.id, u))
        for v in violations:
            print('VIOLATION property=%s replay=%s' % (prop.id, v['replay']))
            log('   harness=%s case=%s\n   violated: %s\n   replay on real build: %s' % (v['harness'], case_key(v['case']), v['what'], v['replay_kind']))
        if violations:
            exit_code = 1
        elif inconclusive or diff_problems:
            exit_code = 2
            for i in inconclusive[:10]: print('INCONCLUSIVE: property=%s %s' % (prop.id, i))
            for i in diff_problems[:10]: print('INCONCLUSIVE: property=%s translation validation mismatch: %s' % (prop.id, i))
        wall = time.time() - t_start
        evidence = {
            'property_id': prop.id, 'tier': tier, 'seed': seed, 'level': 'other',
            'coverage': {
                'explanation': 'Bounded symbolic checking of the real code: ' + prop.explanation,
                'technique': 'clang-14 -O1 LLVM IR of the real bluetoe code -> C (ll2c) -> CBMC 6.11 bounded model checking with unwinding assertions; case split is a partition of the universally quantified input space, every case is one solver query over all remaining symbolic values',
                'functions_encoded': prop.functions,
                'units': ev['units'],
                'bounds': prop.bounds,
                'outside_the_claim': prop.outside,
                'harnesses': ev['harnesses'],
                'evaluations': ev['queries'],
                'distinct_nontrivial': ev['nontrivial'],
                'rule': 'one evaluation = one CBMC query (one case of the case split, all other inputs symbolic); a case counts as non-trivial when its reachability witness (assert(0) at the end of the harness) was reported reachable, i.e. the assumptions are satisfiable and the harness reaches its end',
                'queries_discharged': ev['queries_ok'], 'queries_failed': ev['queries_fail'], 'queries_inconclusive': ev['queries_inconclusive'],
                'obligations': ev['obligations'], 'discharged': ev['discharged'],
                'solver_wall_s': round(ev['solver_wall_s'], 1), 'peak_rss_mb': ev['peak_rss_mb'],
                'translation_validation': {'iterations': ev['diff_iterations'], 'skipped_by_assumption': ev.get('diff_skipped', 0), 'mismatches': ev['diff_mismatches'],
                                           'method': 'same harness compiled natively against (a) the generated C and (b) the g++ -fsanitize=address,undefined build of the real shim; identical PRNG inputs; all CHECK conditions and observed outputs hashed and compared per iteration'},
                'known_findings_reproduced': [{'id': k, **i} for k, i in known_hits],
                'ub_candidates': ub_candidates[:20],
                'violations': violations[:20],
                'unconfirmed_counterexamples': unconfirmed[:20],
                'inconclusive': inconclusive[:20] + diff_problems[:10],
                'samples': ev['samples'] or [{'note': 'no successful case'}],
                'checker_cmd': 'cbmc <case>.gb --function harness --unwind N ' + ' '.join(CBMC_FLAGS),
                'trusted_base': ['clang-14 front end and -O1 pipeline', 'llvm-link-14/opt-14', 'll2c IR->C translator (cross-checked by the differential run)',
                                 'CBMC 6.11.0 and its SAT back end', 'reference models and stubs in the harness'] + prop.trusted,
                'repo_state': repo_state(),
            },
            'assumptions': prop.assumptions,
            'wall_s': round(wall, 1),
            'violations': len(violations),
        }
        EVD = os.environ.get('VF_EVIDENCE_DIR') or (os.path.join(VERIF, 'evidence') if os.path.realpath(REPO) == '/repo' else '/tmp/vf_evidence_other_tree')   # evidence/ only ever describes /repo itself
        os.makedirs(EVD, exist_ok=True)
        json.dump(evidence, open(os.path.join(EVD, prop.id + '.json'), 'w'), indent=1)
        log('[%s] tier=%s queries=%d ok=%d fail=%d inconclusive=%d assertions=%d diff_iter=%d mismatches=%d wall=%.0fs solver=%.0fs peak=%dMB -> exit %d' % (
            prop.id, tier, ev['queries'], ev['queries_ok'], ev['queries_fail'], ev['queries_inconclusive'], ev['obligations'],
            ev['diff_iterations'], ev['diff_mismatches'], wall, ev['solver_wall_s'], ev['peak_rss_mb'], exit_code))
        return exit_code
    except BuildError as e:
        print('INCONCLUSIVE: property=%s build failed: %s' % (prop.id, str(e)[-3000:]))
        evidence = {'property_id': prop.id, 'tier': tier, 'seed': seed, 'level': 'other',
                    'coverage': {'explanation': 'build failed, nothing was checked: ' + str(e)[-1000:], 'evaluations': 0, 'distinct_nontrivial': 0, 'samples': []},
                    'wall_s': round(time.time() - t_start, 1), 'violations': 0}
        EVD = os.environ.get('VF_EVIDENCE_DIR') or (os.path.join(VERIF, 'evidence') if os.path.realpath(REPO) == '/repo' else '/tmp/vf_evidence_other_tree')   # evidence/ only ever describes /repo itself
        os.makedirs(EVD, exist_ok=True)
        json.dump(evidence, open(os.path.join(EVD, prop.id + '.json'), 'w'), indent=1)
        return 2
    finally:
        if not keep:
            shutil.rmtree(work, ignore_errors=True)
