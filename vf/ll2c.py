#!/usr/bin/env python3
"""
Feasibility spike: LLVM-14 textual IR (typed pointers, clang -O1) -> C for cbmc.
Not framework code; written to measure what the IR->C->cbmc route costs on bluetoe.
"""
import re, sys, hashlib

# ----------------------------------------------------------------------------- lexer
TOK = re.compile(r'''
    (?P<ws>\s+)
  | (?P<comment>;[^\n]*)
  | (?P<str>c"(?:[^"\\]|\\[0-9A-Fa-f]{2}|\\\\)*")
  | (?P<qstr>"[^"]*")
  | (?P<lname>%(?:"[^"]*"|[-a-zA-Z$._0-9]+))
  | (?P<gname>@(?:"[^"]*"|[-a-zA-Z$._0-9]+))
  | (?P<meta>![-a-zA-Z$._0-9]*(?:\([^)]*\))?)
  | (?P<attr>\#[0-9]+)
  | (?P<num>-?[0-9]+(?:\.[0-9]+(?:e[+-]?[0-9]+)?)?|0x[0-9A-Fa-f]+)
  | (?P<dots>\.\.\.)
  | (?P<word>[a-zA-Z_][a-zA-Z_0-9.]*)
  | (?P<punct><\{|\}>|[\[\](){}<>,=*:])
''', re.X)

def lex(s):
    out = []; pos = 0
    while pos < len(s):
        m = TOK.match(s, pos)
        if not m:
            raise SyntaxError('lex error at: ' + s[pos:pos+60])
        pos = m.end()
        k = m.lastgroup
        if k in ('ws', 'comment'): continue
        out.append((k, m.group()))
    return out

# ----------------------------------------------------------------------------- types
class Ty:
    pass
class IntTy(Ty):
    def __init__(s, n): s.n = n
    def key(s): return 'i%d' % s.n
class VoidTy(Ty):
    def key(s): return 'void'
class PtrTy(Ty):
    def __init__(s, to): s.to = to
    def key(s): return s.to.key() + '*'
class ArrTy(Ty):
    def __init__(s, n, el): s.n = n; s.el = el
    def key(s): return '[%d x %s]' % (s.n, s.el.key())
class StructTy(Ty):      # literal
    def __init__(s, els, packed): s.els = els; s.packed = packed
    def key(s): return ('<{%s}>' if s.packed else '{%s}') % ','.join(e.key() for e in s.els)
class NamedTy(Ty):
    def __init__(s, name): s.name = name
    def key(s): return s.name
class FnTy(Ty):
    def __init__(s, ret, args, va): s.ret = ret; s.args = args; s.va = va
    def key(s): return '%s(%s%s)' % (s.ret.key(), ','.join(a.key() for a in s.args), ',...' if s.va else '')
class OpaqueTy(Ty):
    def key(s): return 'opaque'

PARAM_ATTRS = {'noundef','nonnull','nocapture','readonly','writeonly','noalias','zeroext','signext','immarg',
               'returned','inreg','nest','nofree','readnone','swiftself','swifterror'}
FN_ATTRS = {'section','dso_local','local_unnamed_addr','unnamed_addr','internal','linkonce_odr','weak_odr','weak','external','private',
            'available_externally','hidden','protected','default','fastcc','ccc','coldcc','noundef','zeroext','signext',
            'noalias','nonnull','comdat','tail','musttail','notail','nsw','nuw','exact','inbounds','volatile','nnan','fast'}

class P:
    """token stream parser"""
    def __init__(s, toks): s.t = toks; s.i = 0
    def peek(s, k=0): return s.t[s.i+k] if s.i+k < len(s.t) else ('eof','')
    def next(s):
        x = s.t[s.i]; s.i += 1; return x
    def accept(s, v):
        if s.peek()[1] == v: s.i += 1; return True
        return False
    def expect(s, v):
        x = s.next()
        if x[1] != v: raise SyntaxError('expected %r got %r near %r' % (v, x, s.t[max(0,s.i-8):s.i+4]))
    def skip_attrs(s, extra=()):
        while True:
            k, v = s.peek()
            if k == 'word' and (v in PARAM_ATTRS or v in FN_ATTRS or v in extra):
                s.i += 1
                if v == 'comdat' and s.peek()[1] == '(':
                    while s.next()[1] != ')': pass
                continue
            if k == 'word' and v in ('align','dereferenceable','dereferenceable_or_null'):
                s.i += 1
                if s.peek()[1] == '(':
                    while s.next()[1] != ')': pass
                else:
                    s.next()
                continue
            if k == 'word' and v in ('byval','sret','byref','preallocated','inalloca','elementtype'):
                # handled by caller via lookahead
                return
            if k == 'attr' or k == 'qstr': s.i += 1; continue
            return
    def type(s):
        k, v = s.next()
        if k == 'word' and re.fullmatch(r'i[0-9]+', v): t = IntTy(int(v[1:]))
        elif v == 'void': t = VoidTy()
        elif v in ('float','double'): t = IntTy(32 if v=='float' else 64)   # not used by bluetoe
        elif v == 'opaque' or v == 'metadata': t = OpaqueTy()
        elif k == 'lname': t = NamedTy(v)
        elif v == '[':
            n = int(s.next()[1]); s.expect('x'); el = s.type(); s.expect(']'); t = ArrTy(n, el)
        elif v == '{' or v == '<{':
            close = '}' if v == '{' else '}>'
            els = []
            if not s.accept(close):
                while True:
                    els.append(s.type())
                    if s.accept(close): break
                    s.expect(',')
            t = StructTy(els, v == '<{')
        elif v == '<':
            raise SyntaxError('vector types unsupported')
        else:
            raise SyntaxError('bad type token %r' % (v,))
        while True:
            if s.accept('*'): t = PtrTy(t)
            elif s.peek()[1] == '(' :
                # function type
                s.next(); args = []; va = False
                if not s.accept(')'):
                    while True:
                        if s.peek()[0] == 'dots': s.next(); va = True
                        else: args.append(s.type())
                        if s.accept(')'): break
                        s.expect(',')
                t = FnTy(t, args, va)
            else: break
        return t

# ----------------------------------------------------------------------------- module
class Module:
    def __init__(s):
        s.named = {}       # name -> Ty
        s.globals = {}     # name -> (ty, init tokens or None, is_const)
        s.gorder = []
        s.funcs = {}       # name -> Func
        s.forder = []
        s.decls = {}       # name -> FnTy
        s.ctors = []
        s.aliases = {}

class Func:
    pass

def split_top(text):
    """split module text in top-level entities"""
    lines = text.split('\n'); i = 0; ents = []
    while i < len(lines):
        l = lines[i]
        if l.startswith('define'):
            j = i
            while lines[j] != '}': j += 1
            ents.append('\n'.join(lines[i:j+1])); i = j+1
        else:
            if l.strip() and not l.startswith(';') and not l.startswith('source_filename') and not l.startswith('target') \
               and not l.startswith('attributes') and not l.startswith('!') and not l.startswith('$'):
                ents.append(l)
            i += 1
    return ents

# ----------------------------------------------------------------------------- C emission helpers
def cid(name):
    n = name[1:]
    if n.startswith('"'): n = n[1:-1]
    c = re.sub(r'[^A-Za-z0-9_]', '_', n)
    if len(c) > 60 or c != n:
        c = c[:40] + '_' + hashlib.md5(n.encode()).hexdigest()[:8]
    return c

class Gen:
    def __init__(s, mod):
        s.m = mod
        s.tydefs = []      # emitted type definitions in order
        s.tynames = {}     # key -> c name
        s.emitting = set()
        s.fwd = []

    def int_c(s, n):
        if n == 1: return 'u1'
        if n in (8,16,32,64): return 'uint%d_t' % n
        if n == 128: return 'unsigned __int128'
        return s.oddint(n)
    def oddint(s, n):
        nm = 'u%d' % n
        if nm not in s.tynames:
            s.tynames[nm] = nm
            s.tydefs.append('VF_ODDINT(%d)' % n)
        return nm

    def ctype(s, t):
        """C type name usable in declarations 'T x'"""
        if isinstance(t, IntTy): return s.int_c(t.n)
        if isinstance(t, VoidTy): return 'void'
        if isinstance(t, PtrTy):
            if isinstance(t.to, FnTy): return s.fnptr(t.to)
            if isinstance(t.to, (VoidTy,)): return 'void*'
            return s.ctype_ref(t.to) + '*'
        if isinstance(t, NamedTy): return s.struct_name(t)
        if isinstance(t, (StructTy, ArrTy)): return s.aggr(t)
        if isinstance(t, OpaqueTy): return 'void'
        if isinstance(t, FnTy): return s.fnty(t)
        raise TypeError(t)

    def ctype_ref(s, t):
        """type name as pointee; may be incomplete (struct forward)"""
        if isinstance(t, NamedTy):
            nm = 'struct ' + 'S_' + cid(t.name)
            s.struct_name(t, complete=False)
            return nm
        if isinstance(t, OpaqueTy): return 'void'
        if isinstance(t, FnTy): return s.fnty(t)
        return s.ctype(t)

    def struct_name(s, t, complete=True):
        nm = 'S_' + cid(t.name)
        key = t.name
        if key in s.tynames:
            if complete and key in s.emitting and key not in s.done:
                pass
            elif complete and key not in s.done:
                s.define_struct(key, nm, s.m.named.get(key))
            return 'struct ' + nm
        s.tynames[key] = nm
        s.fwd.append('struct %s;' % nm)
        if complete: s.define_struct(key, nm, s.m.named.get(key))
        return 'struct ' + nm
    done = None
    def define_struct(s, key, nm, body):
        if s.done is None: s.done = set()
        if key in s.done or key in s.emitting: return
        if body is None or isinstance(body, OpaqueTy):
            s.done.add(key); return
        s.emitting.add(key)
        fields = []
        for i, e in enumerate(body.els):
            fields.append('  %s f%d;' % (s.ctype(e), i))
        if not fields: fields.append('  char vf_empty[0];')
        s.tydefs.append('struct %s%s {\n%s\n};' % ('__attribute__((packed)) ' if body.packed else '', nm, '\n'.join(fields)))
        s.emitting.discard(key); s.done.add(key)

    def aggr(s, t):
        key = t.key()
        if key in s.tynames: return 'struct ' + s.tynames[key]
        nm = ('A_' if isinstance(t, ArrTy) else 'L_') + hashlib.md5(key.encode()).hexdigest()[:10]
        s.tynames[key] = nm
        if isinstance(t, ArrTy):
            el = s.ctype(t.el)
            s.tydefs.append('struct %s { %s e[%d]; };' % (nm, el, t.n))
        else:
            fields = ['  %s f%d;' % (s.ctype(e), i) for i, e in enumerate(t.els)] or ['  char vf_empty[0];']
            s.tydefs.append('struct %s%s {\n%s\n};' % ('__attribute__((packed)) ' if t.packed else '', nm, '\n'.join(fields)))
        return 'struct ' + nm

    def fnty(s, t):
        key = t.key()
        if key in s.tynames: return s.tynames[key]
        nm = 'F_' + hashlib.md5(key.encode()).hexdigest()[:10]
        s.tynames[key] = nm
        args = ', '.join(s.ctype(a) for a in t.args) or ('void' if not t.va else '')
        if t.va and t.args: args += ', ...'
        s.tydefs.append('typedef %s %s(%s);' % (s.ctype(t.ret), nm, args))
        return nm
    def fnptr(s, t):
        return s.fnty(t) + '*'

# ----------------------------------------------------------------------------- constants / values
class Val:
    def __init__(s, ty, c): s.ty = ty; s.c = c

def resolve(m, t):
    while isinstance(t, NamedTy): t = m.named[t.name]
    return t

class FuncGen:
    def __init__(s, g, p=None):
        s.g = g; s.m = g.m; s.locals = {}; s.p = p

    def str_const(s, tok):
        body = tok[2:-1]; out = []; i = 0
        while i < len(body):
            if body[i] == '\\':
                if body[i+1] == '\\': out.append(92); i += 2
                else: out.append(int(body[i+1:i+3], 16)); i += 3
            else: out.append(ord(body[i])); i += 1
        return out

    def const(s, p, ty):
        """parse a constant/operand of given type; returns C expression"""
        k, v = p.peek()
        g = s.g
        rt = resolve(s.m, ty)
        if k == 'num':
            p.next(); n = int(v, 0)
            if isinstance(rt, IntTy):
                n &= (1 << rt.n) - 1
                if rt.n > 64: return '((unsigned __int128)%dULL << 64 | %dULL)' % (n >> 64, n & (2**64-1))
                return '((%s)%dULL)' % (g.ctype(ty), n)
            return str(n)
        if k == 'word' and v in ('true','false'): p.next(); return '1' if v == 'true' else '0'
        if k == 'word' and v == 'null': p.next(); return '((%s)0)' % g.ctype(ty)
        if k == 'word' and v in ('undef','poison'):
            p.next()
            if isinstance(rt, (IntTy, PtrTy)): return '((%s)VF_UNDEF)' % g.ctype(ty)
            return '(%s){0}' % g.ctype(ty)
        if k == 'word' and v == 'zeroinitializer':
            p.next()
            if isinstance(rt, (IntTy, PtrTy)): return '((%s)0)' % g.ctype(ty)
            return '{0}' if s.in_init else '(%s){0}' % g.ctype(ty)
        if k == 'lname':
            p.next(); return s.local(v)
        if k == 'gname':
            p.next(); return s.gref(v, ty)
        if k == 'str':
            p.next(); b = s.str_const(v)
            body = '{ {' + ','.join(str(x) for x in b) + '} }'
            return body if s.in_init else '(%s)%s' % (g.ctype(ty), body)
        if v in ('{', '<{', '['):
            p.next()
            if v == '<{' : p.accept('{') if False else None
            close = {'{':'}', '<{':'}>', '[':']'}[v]
            els = []
            if not p.accept(close):
                while True:
                    et = p.type(); was = s.in_init
                    els.append(s.const(p, et))
                    if p.accept(close): break
                    p.expect(',')
            inner = ', '.join(els)
            body = ('{ {' + inner + '} }') if v == '[' else ('{' + inner + '}')
            return body if s.in_init else '(%s)%s' % (g.ctype(ty), body)
        if k == 'word' and v == 'getelementptr':
            p.next(); p.accept('inbounds'); p.expect('(')
            bt = p.type(); p.expect(',')
            pt = p.type(); base = s.const(p, pt)
            idx = []
            while p.accept(','):
                p.accept('inrange')
                it = p.type(); idx.append((it, s.const(p, it)))
            p.expect(')')
            e, rty = s.gep(base, bt, idx)
            return '((%s)%s)' % (g.ctype(ty), e)
        if k == 'word' and v in ('bitcast','ptrtoint','inttoptr','trunc','zext','sext','addrspacecast'):
            p.next(); p.expect('(')
            ft = p.type(); x = s.const(p, ft); p.expect('to'); tt = p.type(); p.expect(')')
            return s.cast(v, ft, x, tt)
        if k == 'word' and v in ('add','sub','mul','and','or','xor','shl','lshr'):
            p.next(); p.skip_attrs(); p.expect('(')
            t1 = p.type(); a = s.const(p, t1); p.expect(','); t2 = p.type(); b = s.const(p, t2); p.expect(')')
            return s.binop(v, t1, a, b)
        raise SyntaxError('const? %r %r' % (k, v))

    in_init = False

    def local(s, name):
        return 'v_' + cid(name) if not re.fullmatch(r'%[0-9]+', name) else 'v' + name[1:]

    def gref(s, name, ty):
        c = 'g_' + cid(name) if name in s.m.globals else cid(name)
        if name in s.m.globals:
            gty = s.m.globals[name][0]
            e = '(&%s)' % c
            if PtrTy(gty).key() != ty.key(): e = '((%s)%s)' % (s.g.ctype(ty), e)
            return e
        # function
        return '((%s)%s)' % (s.g.ctype(ty), c) if True else c

    def gep(s, base, bt, idx):
        g = s.g
        it0, i0 = idx[0]
        e = '(%s)[(int64_t)%s]' % (base, s.sx(it0, i0))
        cur = bt
        for it, ix in idx[1:]:
            r = resolve(s.m, cur)
            if isinstance(r, StructTy):
                m = re.search(r'(\d+)ULL', ix); n = int(m.group(1))
                e += '.f%d' % n; cur = r.els[n]
            elif isinstance(r, ArrTy):
                e += '.e[(int64_t)%s]' % s.sx(it, ix); cur = r.el
            else:
                raise TypeError('gep into ' + r.key())
        return '(&%s)' % e, PtrTy(cur)

    def sx(s, ty, e):
        n = resolve(s.m, ty).n
        if n == 64: return '(int64_t)' + e
        return '(int%d_t)%s' % (n, e) if n in (8,16,32) else 'VF_SEXT(%s,%d)' % (e, n)

    def cast(s, op, ft, x, tt):
        g = s.g; ct = g.ctype(tt)
        rf = resolve(s.m, ft); rt = resolve(s.m, tt)
        if op in ('bitcast','addrspacecast'):
            return '((%s)%s)' % (ct, x)
        if op == 'ptrtoint': return '((%s)(uintptr_t)%s)' % (ct, x)
        if op == 'inttoptr': return '((%s)(uintptr_t)%s)' % (ct, x)
        if op == 'trunc':
            if rt.n == 1: return '((u1)((%s) & 1))' % x
            if rt.n not in (8,16,32,64,128): return '((%s)((%s) & ((1ULL<<%d)-1)))' % (ct, x, rt.n)
            return '((%s)%s)' % (ct, x)
        if op == 'zext': return '((%s)%s)' % (ct, x)
        if op == 'sext':
            if rf.n == 1: return '((%s)(-(%s)(%s)))' % (ct, ct.replace('uint','int') if 'uint' in ct else ct, x)
            return '((%s)%s)' % (ct, s.sx(ft, x)) if rt.n <= 64 else '((%s)(__int128)%s)' % (ct, s.sx(ft, x))
        raise ValueError(op)

    def binop(s, op, ty, a, b):
        ct = s.g.ctype(ty); n = resolve(s.m, ty).n
        sym = {'add':'+','sub':'-','mul':'*','and':'&','or':'|','xor':'^','udiv':'/','urem':'%'}
        if op in sym:
            if n == 1 and op in ('add','sub','xor'): return '((u1)((%s ^ %s) & 1))' % (a, b)
            return '((%s)(%s %s %s))' % (ct, a, sym[op], b)
        if op == 'shl': return '((%s)(%s << %s))' % (ct, a, b)
        if op == 'lshr': return '((%s)(%s >> %s))' % (ct, a, b)
        if op == 'ashr': return '((%s)(%s >> %s))' % (ct, s.sx(ty, a), b)
        if op == 'sdiv': return '((%s)(%s / %s))' % (ct, s.sx(ty, a), s.sx(ty, b))
        if op == 'srem': return '((%s)(%s %% %s))' % (ct, s.sx(ty, a), s.sx(ty, b))
        raise ValueError(op)

# ----------------------------------------------------------------------------- function body
def parse_module(text):
    m = Module()
    ents = split_top(text)
    for e in ents:
        if e.startswith('%'):
            p = P(lex(e)); nm = p.next()[1]; p.expect('='); p.expect('type')
            m.named[nm] = p.type()
    for e in ents:
        if e.startswith('@') and ' alias ' in e.split('=',1)[1][:80]:
            toks = lex(e)
            m.aliases[toks[0][1]] = [v for k, v in toks if k == 'gname'][-1]
        elif e.startswith('@'):
            p = P(lex(e)); nm = p.next()[1]; p.expect('=')
            p.skip_attrs(extra=('global','constant','appending','thread_local'))
            # find 'global' or 'constant' keyword position
            toks = p.t; i = 1
            while toks[i][1] not in ('global','constant'): i += 1
            is_const = toks[i][1] == 'constant'
            p.i = i + 1
            ty = p.type()
            rest = toks[p.i:]
            # strip trailing ', align N' / ', comdat' / section etc.
            depth = 0; cut = len(rest)
            for j, (k, v) in enumerate(rest):
                if v in ('(', '[', '{', '<{'): depth += 1
                elif v in (')', ']', '}', '}>'): depth -= 1
                elif v == ',' and depth == 0: cut = j; break
            init = rest[:cut]
            ext = any(t[1] == 'external' for t in toks[:i])
            m.globals[nm] = (ty, init if init and not ext else None, is_const, ext); m.gorder.append(nm)
        elif e.startswith('declare'):
            p = P(lex(e)); p.next(); p.skip_attrs()
            ret = p.type(); nm = p.next()[1]; p.expect('(')
            args = []; va = False
            if not p.accept(')'):
                while True:
                    if p.peek()[0] == 'dots': p.next(); va = True
                    else:
                        args.append(p.type()); skip_param_attrs(p)
                    if p.accept(')'): break
                    p.expect(',')
            m.decls[nm] = FnTy(ret, args, va)
        elif e.startswith('define'):
            f = Func(); f.text = e
            head, body = e.split('{\n', 1)
            p = P(lex(head)); p.next(); p.skip_attrs()
            f.ret = p.type(); f.name = p.next()[1]; p.expect('(')
            f.params = []
            if not p.accept(')'):
                while True:
                    t = p.type(); byval = skip_param_attrs(p)
                    nm = p.next()[1]
                    f.params.append((t, nm, byval))
                    if p.accept(')'): break
                    p.expect(',')
            f.internal = ' internal ' in head or ' linkonce_odr ' in head
            f.body = body.rsplit('}', 1)[0]
            m.funcs[f.name] = f; m.forder.append(f.name)
    return m

def skip_param_attrs(p):
    byval = None
    while True:
        p.skip_attrs()
        k, v = p.peek()
        if k == 'word' and v in ('byval','sret','byref','preallocated','inalloca','elementtype'):
            p.next(); p.expect('('); t = p.type(); p.expect(')')
            if v == 'byval': byval = t
            continue
        return byval

ICMP = {'eq':'==','ne':'!=','ugt':'>','uge':'>=','ult':'<','ule':'<=','sgt':'>','sge':'>=','slt':'<','sle':'<='}

def emit_function(g, f, out, resumable=False, yield_filter=None, stubbed=False):
    fg = FuncGen(g)
    allocas = set()
    def yields(cty, addr):
        # partial order reduction hook: only accesses whose "ctype:address" matches the filter are scheduling points
        if not resumable or addr in allocas: return False
        return yield_filter is None or re.search(yield_filter, '%s:%s' % (cty, addr)) is not None
    m = g.m
    decls = []      # (ctype, name)
    lines = []
    blocks = []     # (label, [insn token lists])
    cur = None
    raw = f.body.split('\n')
    # join multi-line instructions (switch)
    joined = []; acc = None
    for l in raw:
        if acc is not None:
            acc += ' ' + l.strip()
            if l.strip() == ']': joined.append(acc); acc = None
            continue
        st = l.strip()
        if st.startswith('switch') and st.endswith('['):
            acc = l; continue
        joined.append(l)
    entry = str(sum(1 for t, n, bv in f.params if re.fullmatch(r'%[0-9]+', n)))
    for l in joined:
        if not l.strip(): continue
        mlab = re.match(r'^([-a-zA-Z$._0-9]+|"[^"]*"):', l)
        if mlab:
            cur = (mlab.group(1), []); blocks.append(cur); continue
        if cur is None:
            cur = (entry, []); blocks.append(cur)
        cur[1].append(l.strip())
    # first pass: types of SSA values we need: do lazily while emitting: we emit 'T v = ...' into decl list
    def lab(n):
        n = n.lstrip('%').strip('"')   # quoted labels (names with '$', e.g. inlined lambdas): same name as the block definition (blname)
        return 'L_' + re.sub(r'[^A-Za-z0-9_]', '_', n)
    # collect phis per block: block -> [(dest, ty, [(valtoks, pred)])]
    phis = {}
    parsed = {}
    for bl, insns in blocks:
        for ins in insns:
            if ' = phi ' in ins:
                p = P(lex(ins)); dest = p.next()[1]; p.expect('='); p.expect('phi'); ty = p.type()
                inc = []
                while True:
                    p.expect('[')
                    start = p.i
                    # value tokens until ',' at depth 0
                    depth = 0
                    while True:
                        k, v = p.peek()
                        if v in ('(', '[', '{', '<{'): depth += 1
                        if v in (')', ']', '}', '}>'): depth -= 1
                        if v == ',' and depth == 0: break
                        p.next()
                    vt = p.t[start:p.i]; p.expect(',')
                    pred = p.next()[1]; p.expect(']')
                    inc.append((vt, pred.lstrip('%')))
                    if not p.accept(','): break
                phis.setdefault(bl, []).append((dest, ty, inc))
    def phi_copies(frm, to):
        to = to.lstrip('%')
        res = []
        lst = phis.get(to, [])
        tmp = []
        for dest, ty, inc in lst:
            for vt, pred in inc:
                if pred == frm:
                    pp = P(vt); e = fg.const(pp, ty)
                    tmp.append((fg.local(dest), e)); break
            else:
                raise KeyError('phi pred %s -> %s in %s' % (frm, to, f.name))
        if len(tmp) == 1:
            res.append('%s = %s;' % tmp[0])
        else:
            for d, e in tmp: res.append('%s_phi = %s;' % (d, e))
            for d, e in tmp: res.append('%s = %s_phi;' % (d, d))
        return ' '.join(res)
    for bl, lst in phis.items():
        for dest, ty, inc in lst:
            decls.append((g.ctype(ty), fg.local(dest)))
            if len(lst) > 1: decls.append((g.ctype(ty), fg.local(dest) + '_phi'))
    def define(dest, ty, expr):
        decls.append((g.ctype(ty), fg.local(dest)))
        lines.append('  %s = %s;' % (fg.local(dest), expr))

    first = True
    for bl, insns in blocks:
        blname = bl.strip('"')
        lines.append('%s: ;' % lab(blname))
        for ins in insns:
            p = P(lex(ins))
            dest = None
            if p.peek()[0] == 'lname' and p.peek(1)[1] == '=':
                dest = p.next()[1]; p.next()
            k, op = p.next()
            if op in ('tail','musttail','notail'): k, op = p.next()
            if op == 'phi': continue
            if op == 'alloca':
                p.accept('inalloca'); ty = p.type()
                cnt = None
                if p.accept(','):
                    if p.peek()[1] != 'align':
                        ct = p.type(); cnt = fg.const(p, ct)
                nm = fg.local(dest)
                allocas.add(nm)
                if cnt:
                    decls.append((g.ctype(ty), nm + '_mem[%s]' % cnt)); decls.append((g.ctype(PtrTy(ty)), nm))
                    lines.append('  %s = %s_mem;' % (nm, nm))
                else:
                    decls.append((g.ctype(ty), nm + '_mem')); decls.append((g.ctype(PtrTy(ty)), nm))
                    lines.append('  %s = &%s_mem;' % (nm, nm))
            elif op == 'load':
                atomic = p.accept('atomic'); vol = p.accept('volatile')
                ty = p.type(); p.expect(','); pt = p.type(); a = fg.const(p, pt)
                if yields(g.ctype(ty), a): lines.append('  VF_YIELD(1, %s);' % a)
                if vol or atomic:
                    define(dest, ty, 'VF_VLOAD(%s, %s)' % (g.ctype(ty), a))
                else:
                    define(dest, ty, '*%s' % a)
            elif op == 'store':
                atomic = p.accept('atomic'); vol = p.accept('volatile')
                ty = p.type(); v = fg.const(p, ty); p.expect(','); pt = p.type(); a = fg.const(p, pt)
                if yields(g.ctype(ty), a): lines.append('  VF_YIELD(2, %s);' % a)
                if vol or atomic: lines.append('  VF_VSTORE(%s, %s, %s);' % (g.ctype(ty), a, v))
                else: lines.append('  *%s = %s;' % (a, v))
            elif op == 'getelementptr':
                p.accept('inbounds'); bt = p.type(); p.expect(','); pt = p.type(); base = fg.const(p, pt)
                idx = []
                while p.accept(','):
                    it = p.type(); idx.append((it, fg.const(p, it)))
                e, rty = fg.gep(base, bt, idx)
                define(dest, rty, e)
            elif op in ('add','sub','mul','and','or','xor','shl','lshr','ashr','udiv','urem','sdiv','srem'):
                p.skip_attrs(); ty = p.type(); a = fg.const(p, ty); p.expect(','); b = fg.const(p, ty)
                define(dest, ty, fg.binop(op, ty, a, b))
            elif op == 'icmp':
                cc = p.next()[1]; ty = p.type(); a = fg.const(p, ty); p.expect(','); b = fg.const(p, ty)
                rt = resolve(m, ty)
                if isinstance(rt, PtrTy):
                    if cc in ('eq','ne'): e = '(%s %s %s)' % (a, ICMP[cc], b)
                    else: e = '((char*)%s %s (char*)%s)' % (a, ICMP[cc], b)
                elif cc[0] == 's' and cc not in ('eq','ne'):
                    e = '(%s %s %s)' % (fg.sx(ty, a), ICMP[cc], fg.sx(ty, b))
                else:
                    e = '(%s %s %s)' % (a, ICMP[cc], b)
                define(dest, IntTy(1), '(u1)' + e)
            elif op in ('trunc','zext','sext','bitcast','ptrtoint','inttoptr','addrspacecast'):
                ft = p.type(); x = fg.const(p, ft); p.expect('to'); tt = p.type()
                define(dest, tt, fg.cast(op, ft, x, tt))
            elif op == 'select':
                p.skip_attrs(); ct = p.type(); c = fg.const(p, ct); p.expect(',')
                t1 = p.type(); a = fg.const(p, t1); p.expect(','); t2 = p.type(); b = fg.const(p, t2)
                define(dest, t1, '(%s ? %s : %s)' % (c, a, b))
            elif op == 'freeze':
                ty = p.type(); a = fg.const(p, ty); define(dest, ty, a)
            elif op == 'extractvalue':
                ty = p.type(); a = fg.const(p, ty); cur = ty; e = a
                while p.accept(','):
                    n = int(p.next()[1]); r = resolve(m, cur)
                    if isinstance(r, StructTy): e += '.f%d' % n; cur = r.els[n]
                    else: e += '.e[%d]' % n; cur = r.el
                define(dest, cur, e)
            elif op == 'insertvalue':
                ty = p.type(); a = fg.const(p, ty); p.expect(','); vt = p.type(); v = fg.const(p, vt)
                define(dest, ty, a); cur = ty; e = fg.local(dest)
                while p.accept(','):
                    n = int(p.next()[1]); r = resolve(m, cur)
                    if isinstance(r, StructTy): e += '.f%d' % n; cur = r.els[n]
                    else: e += '.e[%d]' % n; cur = r.el
                lines.append('  %s = %s;' % (e, v))
            elif op == 'call':
                p.skip_attrs()
                rty = p.type()
                k2, callee = p.next()
                if k2 == 'gname': cal = callee
                elif k2 == 'lname': cal = None; calexpr = fg.local(callee)
                else: raise SyntaxError('callee ' + callee)
                p.expect('(')
                args = []
                if not p.accept(')'):
                    while True:
                        if p.peek()[0] == 'meta' or p.peek()[1] == 'metadata':
                            # metadata arg
                            while p.peek()[1] not in (',', ')'): p.next()
                            args.append((None, None, None))
                        else:
                            at = p.type(); bv = skip_param_attrs(p); av = fg.const(p, at); args.append((at, av, bv))
                        if p.accept(')'): break
                        p.expect(',')
                if isinstance(rty, FnTy): rty = rty.ret
                if isinstance(rty, PtrTy) and isinstance(rty.to, FnTy) and cal is None and False: pass
                pre = []
                cargs = []
                for i, (at, av, bv) in enumerate(args):
                    if bv is not None:
                        tmp = 'bv_%s_%d' % (fg.local(dest) if dest else 'c%d' % len(lines), i)
                        decls.append((g.ctype(bv), tmp)); pre.append('  %s = *%s;' % (tmp, av)); cargs.append('&' + tmp)
                    else: cargs.append(av)
                lines.extend(pre)
                if cal and cal.startswith('@llvm.'):
                    e = intrinsic(g, fg, cal, cargs, args, rty)
                    if e is None: continue
                elif cal:
                    nm = cid(cal)
                    e = '%s(%s)' % (nm, ', '.join(cargs))
                else:
                    e = '%s(%s)' % (calexpr, ', '.join(cargs))
                if dest and not isinstance(rty, VoidTy): define(dest, rty, e)
                else: lines.append('  %s;' % e)
            elif op == 'br':
                if p.accept('label'):
                    t = p.next()[1]
                    lines.append('  { %s goto %s; }' % (phi_copies(blname, t), lab(t)))
                else:
                    ct = p.type(); c = fg.const(p, ct); p.expect(','); p.expect('label'); a = p.next()[1]; p.expect(','); p.expect('label'); b = p.next()[1]
                    lines.append('  if (%s) { %s goto %s; } else { %s goto %s; }' % (c, phi_copies(blname, a), lab(a), phi_copies(blname, b), lab(b)))
            elif op == 'switch':
                ty = p.type(); v = fg.const(p, ty); p.expect(','); p.expect('label'); d = p.next()[1]; p.expect('[')
                lines.append('  switch (%s) {' % v)
                while not p.accept(']'):
                    ct = p.type(); cv = p.next()[1]; p.expect(','); p.expect('label'); t = p.next()[1]
                    n = int(cv) & ((1 << resolve(m, ct).n) - 1)
                    lines.append('    case %dULL: { %s goto %s; }' % (n, phi_copies(blname, t), lab(t)))
                lines.append('    default: { %s goto %s; }' % (phi_copies(blname, d), lab(d)))
                lines.append('  }')
            elif op == 'ret':
                ty = p.type()
                if isinstance(ty, VoidTy): lines.append('  return;')
                else: lines.append('  return %s;' % fg.const(p, ty))
            elif op == 'unreachable':
                lines.append('  VF_UNREACHABLE();')
            elif op == 'fence':
                lines.append('  VF_FENCE();')
            elif op == 'atomicrmw':
                # executed as one indivisible step (single yield point before it)
                p.accept('volatile'); rop = p.next()[1]; pt = p.type(); a = fg.const(p, pt); p.expect(','); ty = p.type(); v = fg.const(p, ty)
                if yields(g.ctype(ty), a): lines.append('  VF_YIELD(3, %s);' % a)
                ct = g.ctype(ty)
                define(dest, ty, 'VF_VLOAD(%s, %s)' % (ct, a))
                old = fg.local(dest)
                if rop == 'xchg': new = v
                elif rop in ('add','sub','and','or','xor'): new = fg.binop(rop, ty, old, v)
                elif rop == 'nand': new = '((%s)~(%s & %s))' % (ct, old, v)
                elif rop in ('umax','umin'): new = '(%s %s %s ? %s : %s)' % (old, '>' if rop == 'umax' else '<', v, old, v)
                elif rop in ('max','min'): new = '(%s %s %s ? %s : %s)' % (fg.sx(ty, old), '>' if rop == 'max' else '<', fg.sx(ty, v), old, v)
                else: raise SyntaxError('atomicrmw op ' + rop)
                lines.append('  VF_VSTORE(%s, %s, %s);' % (ct, a, new))
            elif op == 'cmpxchg':
                p.accept('weak'); p.accept('volatile'); pt = p.type(); a = fg.const(p, pt); p.expect(','); ty = p.type(); cmpv = fg.const(p, ty)
                p.expect(','); ty2 = p.type(); newv = fg.const(p, ty2)
                if yields(g.ctype(ty), a): lines.append('  VF_YIELD(3, %s);' % a)
                ct = g.ctype(ty); rty = StructTy([ty, IntTy(1)], False)
                define(dest, rty, '(%s){0}' % g.ctype(rty))
                d = fg.local(dest)
                lines.append('  %s.f0 = VF_VLOAD(%s, %s); %s.f1 = (u1)(%s.f0 == %s); if (%s.f1) VF_VSTORE(%s, %s, %s);' % (d, ct, a, d, d, cmpv, d, ct, a, newv))
            else:
                raise SyntaxError('unsupported instruction: ' + ins)
    params = ', '.join('%s %s' % (g.ctype(t), fg.local(n)) for t, n, bv in f.params) or 'void'
    # stubbed: the body is emitted as NAME__real, every call keeps going to NAME, which the harness defines (contract stub /
    # forwarding wrapper); the prototype of NAME is emitted by translate()
    sig = '%s%s %s%s(%s)' % ('static ' if f.internal and not stubbed else '', g.ctype(f.ret), cid(f.name), '__real' if stubbed else '', params)
    seen = set(); dl = []
    for t, n in decls:
        if n in seen: continue
        seen.add(n); dl.append('  %s %s;' % (t, n))
    plain = [l for l in lines if not l.strip().startswith('VF_YIELD(')]
    out.append(sig + '\n{\n' + '\n'.join(dl) + '\n' + '\n'.join(plain) + '\n}\n')
    if resumable:
        # resumable rendering: locals live in a context struct; the function returns to its caller before
        # every memory access (VF_YIELD) and continues from there on the next NAME__step() call
        nm = cid(f.name)
        fields = []; macros = []
        seen = set()
        for t, n in decls:
            if n in seen: continue
            seen.add(n); fields.append('  %s %s;' % (t, n)); macros.append(n.split('[')[0])
        pnames = []
        for t, n, bv in f.params:
            pn = fg.local(n); pnames.append((g.ctype(t), pn))
            if pn not in seen: fields.append('  %s %s;' % (g.ctype(t), pn)); macros.append(pn); seen.add(pn)
        void = isinstance(f.ret, VoidTy)
        rs = ['struct vf_ctx_%s {\n  int vf_pc; int vf_done; int vf_kind; const void* vf_addr;%s\n%s\n};' % (nm, '' if void else ' %s vf_ret;' % g.ctype(f.ret), '\n'.join(fields)),
              'static struct vf_ctx_%s vf_ctx0_%s, vf_ctx1_%s;' % (nm, nm, nm),
              'void* %s__ctx(int i) { return i ? &vf_ctx1_%s : &vf_ctx0_%s; }' % (nm, nm, nm),
              'void %s__start(void* c_%s) { struct vf_ctx_%s* c = (struct vf_ctx_%s*)c_; c->vf_pc = 0; c->vf_done = 0; c->vf_kind = 0; c->vf_addr = 0; %s }' % (
                  nm, ''.join(', %s p%d' % (ct, i) for i, (ct, pn) in enumerate(pnames)), nm, nm,
                  ' '.join('c->%s = p%d;' % (pn, i) for i, (ct, pn) in enumerate(pnames)))]
        if not void:
            rs.append('%s %s__result(void* c_) { return ((struct vf_ctx_%s*)c_)->vf_ret; }' % (g.ctype(f.ret), nm, nm))
        body = []; ny = 0
        for l in lines:
            st = l.strip()
            if st.startswith('VF_YIELD('):
                ny += 1
                kind, addr = st[len('VF_YIELD('):-2].split(', ', 1)
                body.append('  c->vf_pc = %d; c->vf_kind = %s; c->vf_addr = (const void*)(%s); return 0; VF_R%d: ;' % (ny, kind, addr, ny))
            elif st == 'return;':
                body.append('  { c->vf_done = 1; c->vf_kind = 0; c->vf_addr = 0; return 1; }')
            elif st.startswith('return '):
                body.append('  { c->vf_ret = %s; c->vf_done = 1; c->vf_kind = 0; c->vf_addr = 0; return 1; }' % st[len('return '):-1])
            else:
                body.append(l)
        sw = '  switch (c->vf_pc) { %s default: break; }' % ' '.join('case %d: goto VF_R%d;' % (i, i) for i in range(1, ny + 1))
        rs.append('int %s__step(void* c_)\n{\n  struct vf_ctx_%s* c = (struct vf_ctx_%s*)c_;\n  if (c->vf_done) return 1;\n%s\n%s\n%s\n  c->vf_done = 1; return 1;\n%s\n}\n' % (
            nm, nm, nm, '\n'.join('#define %s (c->%s)' % (x, x) for x in macros), sw, '\n'.join(body), '\n'.join('#undef %s' % x for x in macros)))
        rs.append('int %s__yield_points(void) { return %d; }' % (nm, ny))
        # the access the next __step() call will perform: kind 0 none (not started / finished), 1 load, 2 store, 3 atomic read-modify-write
        rs.append('int %s__next_kind(void* c_) { return ((struct vf_ctx_%s*)c_)->vf_kind; }' % (nm, nm))
        rs.append('const void* %s__next_addr(void* c_) { return ((struct vf_ctx_%s*)c_)->vf_addr; }' % (nm, nm))
        out.append('\n'.join(rs) + '\n')
    return sig

def intrinsic(g, fg, name, cargs, args, rty):
    base = name[len('@llvm.'):]
    if base.startswith('lifetime.') or base.startswith('dbg.') or base.startswith('experimental.noalias') or base.startswith('invariant.'):
        return None
    if base.startswith('memcpy.'): return 'VF_MEMCPY(%s, %s, %s)' % (cargs[0], cargs[1], cargs[2])
    if base.startswith('memmove.'): return 'memmove(%s, %s, %s)' % (cargs[0], cargs[1], cargs[2])
    if base.startswith('memset.'): return 'memset(%s, %s, %s)' % (cargs[0], cargs[1], cargs[2])
    if base == 'assume': return 'VF_LLVM_ASSUME(%s)' % cargs[0]
    if base == 'trap': return 'VF_TRAP()'
    ct = g.ctype(rty)
    for nm, fmt in (('umin','(%s < %s ? %s : %s)'),('umax','(%s > %s ? %s : %s)')):
        if base.startswith(nm + '.'): return fmt % (cargs[0], cargs[1], cargs[0], cargs[1])
    for nm, op in (('smin','<'),('smax','>')):
        if base.startswith(nm + '.'):
            a = fg.sx(args[0][0], cargs[0]); b = fg.sx(args[1][0], cargs[1])
            return '(%s %s %s ? %s : %s)' % (a, op, b, cargs[0], cargs[1])
    if base.startswith('bswap.'): return 'VF_BSWAP%d(%s)' % (rty.n, cargs[0])
    if base.startswith('fshl.') or base.startswith('fshr.') or base.startswith('ctpop.') or base.startswith('ctlz.') or base.startswith('cttz.') or base.startswith('abs.'):
        return 'VF_%s%d(%s)' % (base.split('.')[0].upper(), rty.n, ', '.join(cargs))
    if base.startswith('usub.sat.'): return '(%s > %s ? (%s)(%s - %s) : (%s)0)' % (cargs[0], cargs[1], ct, cargs[0], cargs[1], ct)
    if base.startswith('uadd.with.overflow') or base.startswith('umul.with.overflow'):
        raise SyntaxError('overflow intrinsics unsupported in spike')
    raise SyntaxError('intrinsic ' + name)

PRELUDE = r'''
#include <stdint.h>
#include <stddef.h>
#include <string.h>
typedef unsigned char u1;
#ifndef VF_UNDEF
#define VF_UNDEF 0
#endif
#if defined(__CPROVER__) || defined(VF_CBMC)
#define VF_ODDINT(n) typedef unsigned __CPROVER_bitvector[n] u##n;
#define VF_UNREACHABLE() do { __CPROVER_assert(0, "llvm unreachable reached"); __CPROVER_assume(0); } while (0)
#define VF_TRAP() do { __CPROVER_assert(0, "llvm.trap reached"); __CPROVER_assume(0); } while (0)
#define VF_LLVM_ASSUME(c) __CPROVER_assert(c, "llvm.assume holds")
#else
#include <stdlib.h>
#define VF_ODDINT(n) typedef unsigned _BitInt(n) u##n;
#define VF_UNREACHABLE() abort()
#define VF_TRAP() abort()
#define VF_LLVM_ASSUME(c) ((void)0)
#endif
#ifndef VF_VLOAD
#define VF_VLOAD(T, p) (*(volatile T*)(p))
#define VF_VSTORE(T, p, v) (*(volatile T*)(p) = (v))
#endif
#define VF_FENCE() ((void)0)
/* llvm.memcpy allows source and destination to be the same address (struct self assignment), C's memcpy does not */
#define VF_MEMCPY(d, s, n) ((const void*)(d) == (const void*)(s) ? (void*)(d) : memcpy((d), (s), (n)))
#ifndef VF_BSWAP32
#define VF_BSWAP16(x) ((uint16_t)((((uint16_t)(x)) >> 8) | (((uint16_t)(x)) << 8)))
#define VF_BSWAP32(x) ((uint32_t)((((uint32_t)(x)) >> 24) | ((((uint32_t)(x)) >> 8) & 0xff00u) | ((((uint32_t)(x)) << 8) & 0xff0000u) | (((uint32_t)(x)) << 24)))
#define VF_BSWAP64(x) ((uint64_t)(((uint64_t)VF_BSWAP32((uint32_t)(x)) << 32) | (uint64_t)VF_BSWAP32((uint32_t)(((uint64_t)(x)) >> 32))))
#endif
'''

def translate(src, resumable=(), yield_filter=None, stubs=()):
    """LLVM-14 textual IR (typed pointers) -> C text; functions whose C name matches one of the regexes in
    `resumable` additionally get a resumable rendering NAME__ctx/__start/__step/__result (see emit_function)"""
    m = parse_module(src)
    g = Gen(m)
    outl = []
    def pr(x): outl.append(x)
    for tn in list(m.named): g.struct_name(NamedTy(tn))
    out_funcs = []; protos = []; stubbed_names = []
    gl = []
    fg = FuncGen(g)
    gdecl = []
    for nm in m.gorder:
        ty, init, is_const, ext = m.globals[nm]
        if nm.startswith('@llvm.'):
            if nm == '@llvm.global_ctors' and init:
                m.ctors = [v for k, v in init if k == 'gname']
            continue
        c = 'g_' + cid(nm)
        gdecl.append('%s%s %s;' % ('extern ' if init is None else '', g.ctype(ty), c))
    for nm in m.gorder:
        ty, init, is_const, ext = m.globals[nm]
        if nm.startswith('@llvm.') or init is None: continue
        c = 'g_' + cid(nm)
        fg.in_init = True
        p = P(init); e = fg.const(p, ty)
        fg.in_init = False
        gl.append('%s %s = %s;' % (g.ctype(ty), c, e))
    for nm, ft in m.decls.items():
        if nm.startswith('@llvm.'): continue
        if cid(nm) in LIBC: continue
        args = ', '.join(g.ctype(a) for a in ft.args) or 'void'
        protos.append('%s %s(%s);' % (g.ctype(ft.ret), cid(nm), args))
    for nm in m.forder:
        # formatting code (functions taking a std::ostream, e.g. delta_time::print / operator<<) is dropped, see DESIGN.md 3.6
        if 'class.std::basic_ostream' in m.funcs[nm].text.split('{\n', 1)[0]: continue
        res = any(re.fullmatch(r, cid(nm)) for r in resumable)
        stb = any(re.search(r, nm) for r in stubs)
        sig = emit_function(g, m.funcs[nm], out_funcs, resumable=res, yield_filter=yield_filter, stubbed=stb)
        protos.append(sig + ';')
        if stb:
            protos.append(sig.replace('__real(', '(', 1) + ';')
            stubbed_names.append(cid(nm))
    pr(PRELUDE)
    pr('#define bcmp memcmp')
    for a, t in m.aliases.items(): pr('#define %s %s' % (cid(a), cid(t)))
    pr('\n'.join(g.fwd))
    pr('\n'.join(g.tydefs))
    pr('\n'.join(gdecl))
    pr('\n'.join(protos))
    pr('\n'.join(gl))
    pr('\n'.join(out_funcs))
    if m.ctors:
        pr('void vf_global_ctors(void) { %s }' % ' '.join('%s();' % cid(c) for c in m.ctors))
    else:
        pr('void vf_global_ctors(void) {}')
    info = {'functions': [cid(n) for n in m.forder], 'globals': len(m.gorder), 'stubbed': stubbed_names}
    return '\n'.join(outl) + '\n', info

LIBC = ('memcpy','memmove','memset','memcmp','strlen','bcmp','abort')

def main():
    c, info = translate(open(sys.argv[1]).read())
    sys.stdout.write(c)

if __name__ == '__main__':
    main()
