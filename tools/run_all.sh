#!/bin/bash
# runs the quick (or $TIER) command of the given properties one after the other; summary on stdout
# usage: tools/run_all.sh C01 C02 ...
cd "$(dirname "$0")/.."
TIER=${TIER:-quick}
for p in "$@"; do
  s=$(date +%s)
  ./check $p --tier $TIER > /tmp/vf_run_$p.log 2>&1
  rc=$?
  e=$(date +%s)
  echo "$p rc=$rc wall=$((e-s))s $(grep -c '^VIOLATION' /tmp/vf_run_$p.log) violations $(grep -c '^KNOWN-FINDING' /tmp/vf_run_$p.log) known $(grep -c '^INCONCLUSIVE' /tmp/vf_run_$p.log) inconclusive | $(tail -1 /tmp/vf_run_$p.log | cut -c1-160)"
done
