#!/bin/bash
# usage: tools/seed_confirm.sh <seed dir containing patch.diff and build.sh>
# in the warm scratch worktree /tmp/wt/confirm (checked out at /repo HEAD): demo without patch must pass, with patch must fail,
# and the 70 baseline tests must pass with the patch
set -u
D=$1; WT=${CONFIRM_WT:-/tmp/wt/confirm}
[ -n "${SEED_SYNC:-}" ] && git -C $WT checkout -q --detach $(git -C /repo rev-parse HEAD) 2>/dev/null; git -C $WT checkout -q -- . 
rm -f $D/demo; ( cd $D && sh ./build.sh $WT >/tmp/seedconfirm_clean_$$.log 2>&1 ); c=$?
[ -x $D/demo ] && { ( cd $D && ./demo >>/tmp/seedconfirm_clean_$$.log 2>&1 ); c=$?; }
git -C $WT apply $D/patch.diff || { echo "$D: patch does not apply"; exit 3; }
rm -f $D/demo; ( cd $D && sh ./build.sh $WT >/tmp/seedconfirm_patched_$$.log 2>&1 ); p=$?
[ -x $D/demo ] && { ( cd $D && ./demo >>/tmp/seedconfirm_patched_$$.log 2>&1 ); p=$?; }
b=$(nice /verif/tools/run_baseline.sh $WT | tail -2 | tr '\n' ' ')
git -C $WT checkout -q -- .
echo "$D: demo clean rc=$c, patched rc=$p; baseline with patch: $b"
