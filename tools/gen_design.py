#!/usr/bin/env python3
"""regenerates the generated part of DESIGN.md (between the GENERATED markers) from props/C*.py, known_findings*.json and seeded/*/meta.json"""
import os, sys, json, glob, importlib, re
ROOT = os.path.dirname(os.path.dirname(os.path.abspath(__file__)))
sys.path.insert(0, ROOT)
titles = {}
for l in open(os.path.join(ROOT, 'properties.jsonl')):
    p = json.loads(l); titles[p['id']] = p['title']
ready = json.load(open(os.path.join(ROOT, 'tools', 'ready.json')))
out = []
out.append('### 7.1 Per property: what the registered check decides (generated from props/C*.py)\n')
for pid in sorted(titles):
    f = os.path.join(ROOT, 'props', pid + '.py')
    if not os.path.exists(f) or pid not in ready:
        out.append('**%s %s** — no check registered (see section 8).\n' % (pid, titles[pid])); continue
    P = importlib.import_module('props.' + pid).PROPERTY
    out.append('**%s %s**\n' % (pid, titles[pid]))
    out.append('* decided: %s' % P.explanation)
    out.append('* functions encoded: %s' % '; '.join(P.functions))
    units = sorted(set((h.unit.name, h.unit.shim, tuple(h.unit.repo_tus)) for h in P.harnesses))
    out.append('* units: %s' % '; '.join('`%s` (%s%s)' % (n, s, (' + ' + ', '.join(t)) if t else '') for n, s, t in units))
    for h in P.harnesses:
        nq, nt = len(h.cases('quick')), len(h.cases('thorough'))
        out.append('* harness `%s` (%s): %s — bounds: %s — %d queries quick / %d thorough%s' % (
            h.name, h.src, h.description, h.bounds, nq, nt, ', drives the resumable rendering (interleavings)' if h.gen_only else ''))
    out.append('* bounds: %s' % P.bounds)
    out.append('* assumptions and stubs: %s' % '; '.join(P.assumptions))
    out.append('* outside the claim: %s' % '; '.join(P.outside))
    out.append('')
sys.path.insert(0, ROOT)
from vf import core
known = core.load_known()
out.append('### 9.1 Genuine defects repaired (one `fix:` commit each in /repo)\n')
for f in known['fixed']: out.append('* ' + f)
out.append('\n### 9.2 Known findings (genuine defects recorded, not repaired)\n')
for f in known['findings']: out.append('* **%s `%s`** — %s' % (f['property'], f['id'], f['description']))
out.append('\n### 10.1 Seeded changes (written by independent sub-agents that saw only the property text) and the checks that catch them\n')
metas = [json.load(open(m)) for m in sorted(glob.glob(os.path.join(ROOT, 'seeded', '*', 'meta.json')))]
def cnt(pred): return sum(1 for d in metas if pred(d.get('verdict', '')))
out.append('%d seeded changes are kept (each confirmed: the 70 existing tests pass with it, its demonstration fails with it and passes without): '
           '%d caught by the check of their property as it stood, %d caught by the check of a neighbouring property that decides the same mechanism, '
           '%d caught after the check was strengthened (remark column), %d not caught.\n' % (
           len(metas), cnt(lambda v: v == 'caught'), cnt(lambda v: v.startswith('caught by')), cnt(lambda v: v.startswith('caught after')), cnt(lambda v: v.startswith('not'))))
out.append('| seed | property | what it needs to manifest | caught by | verdict | remark |\n|---|---|---|---|---|---|')
for m in sorted(glob.glob(os.path.join(ROOT, 'seeded', '*', 'meta.json'))):
    d = json.load(open(m))
    out.append('| %s | %s | %s | %s | %s | %s |' % (os.path.basename(os.path.dirname(m)), d.get('property'), d.get('needs', '').replace('|', '/'), d.get('caught_by', ''), d.get('verdict', ''), d.get('remark', '').replace('|', '/')))
text = '\n'.join(out) + '\n'
p = os.path.join(ROOT, 'DESIGN.md')
s = open(p).read()
a, b = '<!-- GENERATED:BEGIN -->', '<!-- GENERATED:END -->'
if a in s:
    s = s[:s.index(a) + len(a)] + '\n' + text + s[s.index(b):]
else:
    s += '\n' + a + '\n' + text + b + '\n'
open(p, 'w').write(s)
print('DESIGN.md generated part: %d lines' % text.count('\n'))
