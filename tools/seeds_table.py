#!/usr/bin/env python3
"""packages the seeded changes under /verif/seeded/<id>/ from /tmp/seed/<agent>/<Cxx>/ and the confirmation / check logs in /tmp.
Run by hand while the logs exist; the result (patch.diff, demonstration, notes.md, meta.json) is committed."""
import os, re, json, glob, subprocess, sys
ROOT = os.path.dirname(os.path.dirname(os.path.abspath(__file__)))
SEEDS = [
 # id, source, property, needs, checks run (log key -> property), remark
 ('S01-C12-roundrobin-indication', 'advA/C12', 'C12', 'a priority level with >= 2 characteristics, indications on one of them, another one pending behind it, and the sequence dequeue indication A / confirm / re-queue A / dequeue (A is served again and again, B starves); existing tests check round robin with notifications only', 'fairness mode with a re-queueing producer (C12 MODE 3) was added after the first run missed it'),
 ('S02-C13-stale-entry-writeback', 'advA/C13', 'C13', 'an interrupt queueing the other kind (notification vs indication) of the same characteristic between dequeue reading the 2 bit entry and writing it back; sequentially equivalent to the original code', ''),
 ('S03-C30-publish-before-copy', 'advA/C30', 'C30', 'the consumer scheduled between the store to write_ptr_ and the copy of the element in try_push (slot published before the payload is written)', ''),
 ('S04-C20-hop-from-table', 'advB/C20', 'C20', 'a channel map update (reset(map)) on a connection whose active map does not contain the channel equal to the hop increment', ''),
 ('S05-C23-pullback-offset', 'advB/C23', 'C23', 'peripheral latency 482..499, listen_if_pending_transmit_data, a pull back by more than 481 + channel index: channel index off by 7 while the event counter is right', 'first run inconclusive: the counterexample trace of the cvc5 back end (formula slicing) carried no inputs; the trace run now uses SAT on the failing assertion'),
 ('S06-C26-full-list-readd', 'advB/C26', 'C26', 'a completely full software white list and adding an address that is already in it (returns false: adding no longer idempotent)', ''),
 ('S07-C07-execute-error-keeps-queue', 'advC/C07', 'C07', 'a prepared write that fails at execute with an error other than Invalid Attribute Value Length (e.g. offset 17 on a 16 byte value), then any further transaction; needs the pre-existing no-op write_queue_guard (owner recorded as channel_data_t address, guard holds the connection_data sub object)', 'missed at first: the shim built its connection type as a subclass of connection_data, where the guard does work; the shim now builds it like link_layer does (server::channel_data_t<>)'),
 ('S08-C09-cccd-reserved-bits', 'advC/C09', 'C09', 'a CCCD write with reserved bits 2..7 set to a CCCD that is not the last of its byte (index % 4 != 3): the extra bits land in the neighbouring CCCDs of that connection', ''),
 ('S09-C05-cccd-inherit', 'advC/C05', 'C05', 'requires_encryption placed at server or service level (not on the characteristic), a notify/indicate characteristic, a request on its CCCD on an unencrypted link', ''),
 ('S10-C15-splitring-exact-fit', 'advD/C15', 'C15', 'a split ring whose free gap equals the allocation exactly and a PDU that fills it (front_ == end_ reads as empty): e.g. a 3 x 29 byte receive ring, slow consumer, 8 connection events', 'not reachable within the history bound of the C15 check (K=3 events, ring sizes 29/61/100); the same mechanism is in the scope of C18 (ring level)'),
 ('S11-C16-ack-in-mic-failed-pdu', 'advD/C16', 'C16', 'an encrypted link and a MIC-failed PDU whose NESN acknowledges a pending non-empty PDU of the peripheral: the PDU is popped but the transmit packet counter does not advance', ''),
 ('S12-C17-length-mask', 'advD/C17', 'C17', 'data length extension (max_rx_size >= 34) and a new PDU with valid CRC, invalid MIC and a payload length that is a multiple of 32', 'missed at first (payload lengths <= 27 only in the quick tier); cases with max size 50 and lengths 1..48 were added to the quick tier of C15/C16/C17'),
 ('S13-C01-prepare-length', 'advG/C01', 'C01', 'a server with shared_write_queue, a Prepare Write Request of exactly 4 octets, then Execute Write with flag 1', ''),
 ('S14-C08-clip-to-client-mtu', 'advG/C08', 'C08', 'client MTU above the server maximum, an L2CAP output buffer larger than the server MTU and a notified value longer than negotiated MTU - 3', ''),
 ('S15-C06-offset-truncated', 'advG/C06', 'C06', 'a writable value longer than 256 octets and a Prepare Write with offset >= 0x0100 followed by Execute Write', 'the C06 check has no execute-write path and no value above 40 bytes; the C07 check (symbolic 16 bit offsets in prepared writes) reports it'),
 ('S16-C32-failed-random-keeps-state', 'advF/C32', 'C32', 'Pairing Request, Pairing Confirm, a Pairing Random that does not match the confirm value, then one more PDU: the state stays legacy_pairing_confirmed after the Pairing Failed', ''),
 ('S17-C33-mackey-as-ltk', 'advF/C33', 'C33', 'LESC numeric comparison with the user answering after the DHKey check arrived: the MacKey instead of the LTK is stored as key', 'missed at first: the quick tier of C33 had no numeric comparison configuration; poll / user answer steps of cfg 6 / 9 were added'),
 ('S18-C40-opcode-overwritten', 'advF/C40', 'C40', 'an accepted write, then a write with another opcode rejected with Procedure Already In Progress, then the response indication of the first write (carries the rejected opcode)', ''),
 ('S19-C27-unknown-rsp-stops-timer', 'advH/C27', 'C27', 'a pending peripheral initiated procedure, an LL_UNKNOWN_RSP naming another PDU type, then no answer for more than 40 s', ''),
 ('S20-C28-stale-has-key', 'advH/C28', 'C28', 'LL_ENC_REQ with a known key left unfinished, then LL_ENC_REQ with an unknown key, then LL_START_ENC_RSP', ''),
 ('S21-C38-off-by-one-bound', 'advH/C38', 'C38', 'an accepted 20 bit draw of exactly 0xF4240 (about 1 in 2^20 RNG streams): passkey 1000000', ''),
 ('S22-C21-instant-distance-int', 'advE/C21', 'C21', 'an instant in the past that is numerically below the current event counter (e.g. counter 3, instant 2): the 16 bit wrap of the distance is lost', ''),
 ('S23-C22-cancel-while-update-pending', 'advE/C22', 'C22', 'latency > 0, listen_if_pending_transmit_data, a connection update whose instant is the next planned event and a notification queued before it (try_event_cancelation in state connection_changed)', ''),
 ('S24-C39-rejected-read-keeps-range', 'advE/C39', 'C39', 'a multi chunk Read in progress with the next data indication requested, a second Read command with a range outside the white list (rejected), then the pending indication is served', ''),
 ('S25-C02-handle-in-cccd-gap', 'advI/C02', 'C02', 'a characteristic with attribute_handles<D,V,C> where C > V+1 and a Find Information / Read By Type whose start or end handle lies strictly inside that gap', ''),
 ('S26-C03-primary-flag-cached', 'advI/C03', 'C03', 'a secondary service declared after a primary service with the same UUID width and a Read By Group Type range that contains both', 'missed at first: no declaration had a secondary service behind a primary one of the same UUID width; declaration B8 (primary, secondary, primary, all 16 bit) was added to C03/C04'),
 ('S27-C04-include-end-128bit', 'advI/C04', 'C04', 'an include of a service with a 128 bit UUID that contains an attribute_handle<> gap inside it: the include declaration names a last handle that is too small', 'missed at first: no declaration had a handle gap inside a service that is included with a 128 bit include declaration; declaration B9 was added'),
 ('S28-C10-include-not-counted', 'advJ/C10', 'C10', 'an include_service<> in (or before) the service of the notified characteristic: the PDU carries handle and bytes of the characteristic declaration', 'NOT CAUGHT: none of the three server declarations of the C10 check contains an include_service<>; adding one (with its hand-written handle table) is the obvious next step and was not done for lack of time. The author of this seed also observed on the unchanged tree that a service WITHOUT characteristics placed before a notifying service is not counted by add_service_offset (wrong handle in the notification): also outside the declarations of the check'),
 ('S29-C11-single-level-wipes-indication', 'advJ/C11', 'C11', 'a priority level with exactly one characteristic that has notify and indicate: indicate (sent, unconfirmed), indicate again + notify, the notification is dequeued and wipes the pending indication', ''),
 ('S30-C14-uuid16-list-odd-space', 'advJ/C14', 'C14', 'a 16 bit UUID list that does not fit completely with an odd remaining space >= 5: one UUID too many is written past the buffer', ''),
 ('S31-C18-splitring-exact-fit', 'advK/C18', 'C18', 'the ring in split state, a request of exactly the gap size and a PDU that uses the whole allocation (same change as S10, found independently)', ''),
 ('S32-C19-malformed-start-keeps-reassembly', 'advK/C19', 'C19', 'an incomplete start fragment A, then a too short or oversized start fragment B, then a continuation: the delivered SDU mixes bytes of two SDUs', ''),
 ('S33-C31-identifier-zero-after-wrap', 'advK/C31', 'C31', '255 completed Connection Parameter Update procedures on one channel object: the 256th request carries identifier 0', ''),
 ('S34-C24-map-with-hole', 'advL/C24', 'C24', 'variable_advertising_channel_map with the map {37, 39}: channel 39 is never used', ''),
 ('S35-C25-initiator-type-from-rxadd', 'advL/C25', 'C25', 'more than one advertising type configured, a white list with the connection filter on, a CONNECT_IND whose TxAdd differs from RxAdd', ''),
 ('S36-C29-stale-disconnect-reason', 'advL/C29', 'C29', 'two connections on the same object: the first ends with a reason other than 0x08, the second is lost by supervision timeout and is reported with the reason of the first', ''),
 ('S37-C34-ediv-rand-unencrypted', 'advM/C34', 'C34', 'pairing completes with bonding, link encrypted, one poll sends the LTK, encryption is paused, the next poll sends EDIV and Rand in the clear', ''),
 ('S38-C35-passkey-entry-authenticated', 'advM/C35', 'C35', 'the combined manager, an SC pairing and IO capabilities that map to passkey entry (executed as just works but reported authenticated)', ''),
 ('S39-C36-lesc-oob-needs-both', 'advM/C36', 'C36', 'an SC pairing where exactly one side has OOB data (LESC must choose OOB, falls through to the IO mapping)', ''),
]
def logs(pattern):
    out = ''
    for f in sorted(glob.glob(pattern)):
        try: out += open(f, errors='replace').read()
        except OSError: pass
    return out
confirm = logs('/tmp/seed_confirm2.log') + logs('/tmp/seed_confirm3.log') + logs('/tmp/seed_confirm4.log')
checks = logs('/tmp/seed_check*.log') + logs('/tmp/c12_mode3.log') + logs('/tmp/seed_extra.log')
for sid, src, prop, needs, remark in SEEDS:
    sdir = '/tmp/seed/' + src
    if not os.path.isdir(sdir): continue
    key = src.replace('/', '_')
    runs = []
    for m in re.finditer(r'^(%s\w*) (C\d+) rc=(\d+) wall=(\d+)s violations=(\d+) inconclusive=(\d+)' % re.escape(key), checks, re.M):
        runs.append({'run': m.group(1), 'check': m.group(2), 'exit': int(m.group(3)), 'violations': int(m.group(5)), 'inconclusive': int(m.group(6))})
    caught = sorted(set(r['check'] for r in runs if r['exit'] == 1 and r['violations'] > 0))
    own = [r for r in runs if r['check'] == prop]
    own_caught = any(r['exit'] == 1 and r['violations'] > 0 for r in own)
    own_missed_first = any(r['exit'] != 1 for r in own)
    cm = re.search(r'^%s: demo clean rc=(\d+), patched rc=(\d+); baseline with patch: (.*)$' % re.escape(sdir), confirm, re.M)
    if not cm or cm.group(1) != '0' or cm.group(2) == '0' or '70 of 70' not in cm.group(3):
        # not (yet) confirmed by the coordinator: not kept
        import shutil
        shutil.rmtree(os.path.join(ROOT, 'seeded', sid), ignore_errors=True)
        print(sid, 'NOT KEPT (no complete confirmation)')
        continue
    meta = {
        'property': prop, 'author': 'independent sub-agent (%s) that saw only the property text' % src.split('/')[0],
        'needs': needs,
        'confirmation': ({'demo_exit_clean_tree': int(cm.group(1)), 'demo_exit_with_patch': int(cm.group(2)), 'existing_tests_with_patch': cm.group(3).strip()} if cm else
                         'the author ran the affected test programs and the demonstration (see notes.md); the full 70 test baseline with the patch was not re-run by the coordinator'),
        'what_i_ran': ['tools/seed_confirm.sh %s   (demo on the clean tree / with the patch, tools/run_baseline.sh with the patch, in a scratch worktree)' % sdir,
                       'tools/seed_check.sh %s %s/patch.diff <checks>   (git apply in a scratch worktree of /repo HEAD, ./check <id> --tier quick with VF_REPO, worktree removed)' % (key, sdir)],
        'check_runs': runs,
        'caught_by': ', '.join(caught),
        'verdict': ('caught after strengthening the check' if own_caught and own_missed_first else 'caught' if own_caught else
                    'caught by %s (same mechanism), not by %s' % (', '.join(caught), prop) if caught else 'not caught' if runs else 'not run'),
        'remark': remark,
    }
    subprocess.check_call([os.path.join(ROOT, 'tools', 'mk_seed.py'), sid, sdir, json.dumps(meta)], stdout=subprocess.DEVNULL)
    print(sid, meta['verdict'], '| confirm:', 'yes' if cm else 'no')
