#!/bin/bash
# nothing is fetched or prebuilt: every check rebuilds from /repo; this only verifies the tools are present
for t in clang++-14 clang-14 llvm-link-14 opt-14 goto-cc cbmc g++ gcc python3; do
  command -v $t >/dev/null || { echo "missing tool: $t"; exit 1; }
done
mkdir -p /verif/evidence /verif/replays
echo "setup ok"
