#!/usr/bin/env python3
"""usage: mk_seed.py <seed id> <source dir> <json with meta fields>  — copies patch.diff, the demonstration and notes into
/verif/seeded/<seed id>/ and writes meta.json"""
import sys, os, json, shutil
sid, src, meta = sys.argv[1], sys.argv[2], json.loads(sys.argv[3])
dst = os.path.join(os.path.dirname(os.path.dirname(os.path.abspath(__file__))), 'seeded', sid)
os.makedirs(dst, exist_ok=True)
for f in os.listdir(src):
    p = os.path.join(src, f)
    if os.path.isfile(p) and os.path.getsize(p) < 200000 and not f.endswith('.log') and f not in ('demo', 'a.out') and not os.access(p, os.X_OK) or f in ('build.sh',):
        shutil.copy(p, os.path.join(dst, f))
for d in ('shim',):
    if os.path.isdir(os.path.join(src, d)):
        shutil.copytree(os.path.join(src, d), os.path.join(dst, d), dirs_exist_ok=True)
json.dump(meta, open(os.path.join(dst, 'meta.json'), 'w'), indent=1)
print(sid, sorted(os.listdir(dst)))
