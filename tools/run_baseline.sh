#!/bin/bash
# builds /repo (guard BLUETOE_VERIF off) and runs the pinned test suite; exit 0 iff all 70 baseline tests pass
set -u
cd /repo
[ -d _build ] || cmake -G Ninja -B _build -DCMAKE_BUILD_TYPE=RelWithDebInfo >/dev/null 2>&1
cmake --build _build -j16 -- -k 0 >/tmp/vf_baseline_build.log 2>&1
ctest --test-dir _build -j16 --timeout 900 >/tmp/vf_baseline_ctest.log 2>&1
python3 - <<'PY'
import json,re,sys
b=json.load(open('/root/.vp/BASELINE.json'))
want=set(x.split('::')[0] for x in b['stable_pass'])
passed=set(re.findall(r'Test\s+#\d+: (\S+) \.+\s+Passed', open('/tmp/vf_baseline_ctest.log').read()))
miss=sorted(want-passed)
print('baseline tests passed: %d of %d' % (len(want&passed), len(want)))
if miss: print('NOT PASSED:', ' '.join(miss)); sys.exit(1)
PY
