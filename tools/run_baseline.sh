#!/bin/bash
# builds /repo (guard BLUETOE_VERIF off) and runs the pinned test suite; exit 0 iff all 70 baseline tests pass
# usage: run_baseline.sh [repo dir]   (default /repo)
set -u
R=${1:-/repo}
cd "$R"
if [ ! -f _build/build.ninja ]; then
  cmake -G Ninja -B _build -DCMAKE_BUILD_TYPE=RelWithDebInfo -DBLUETOE_BUILD_UNIT_TESTS=ON -DBUILD_TESTING=ON \
        -DCMAKE_CXX_FLAGS=-Wno-error -DCMAKE_COMPILE_WARNING_AS_ERROR=OFF -DCMAKE_POLICY_VERSION_MINIMUM=3.5 \
        -DCPM_USE_LOCAL_PACKAGES=ON -DFETCHCONTENT_SOURCE_DIR_GOOGLETEST=/usr/src/googletest -DFETCHCONTENT_SOURCE_DIR_GTEST=/usr/src/googletest \
        -DFETCHCONTENT_TRY_FIND_PACKAGE_MODE=ALWAYS -DFETCHCONTENT_UPDATES_DISCONNECTED=ON >/tmp/vf_baseline_cmake.log 2>&1
fi
L=/tmp/vf_baseline_$$
cmake --build _build -j16 -- -k 0 >$L.build.log 2>&1     # some non-baseline test targets do not compile on this tool chain
ctest --test-dir _build -j16 --timeout 900 >$L.ctest.log 2>&1
python3 - $L.ctest.log <<'PY'
import json,re,sys
b=json.load(open('/root/.vp/BASELINE.json'))
want=set(x.split('::')[0] for x in b['stable_pass'])
passed=set(re.findall(r'Test\s+#\d+: (\S+) \.+\s+Passed', open(sys.argv[1]).read()))
miss=sorted(want-passed)
print('baseline tests passed: %d of %d' % (len(want&passed), len(want)))
if miss: print('NOT PASSED:', ' '.join(miss)); sys.exit(1)
PY
rc=$?
rm -f $L.build.log $L.ctest.log
exit $rc
