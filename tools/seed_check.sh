#!/bin/bash
# usage: tools/seed_check.sh <seed name> <patch.diff> <property> [more properties]
# applies the patch to a scratch worktree of /repo HEAD, runs the quick check(s) against it, removes the worktree
set -u
NAME=$1; PATCH=$2; shift 2
WT=/tmp/wt/seedchk_$NAME
git -C /repo worktree remove --force $WT >/dev/null 2>&1
git -C /repo worktree add --detach $WT >/dev/null 2>&1 || { echo "$NAME: cannot create worktree"; exit 3; }
if ! git -C $WT apply "$PATCH"; then echo "$NAME: patch does not apply"; git -C /repo worktree remove --force $WT; exit 3; fi
cd "$(dirname "$0")/.."
for P in "$@"; do
  s=$(date +%s)
  VF_REPO=$WT ./check $P --tier ${TIER:-quick} > /tmp/seedchk_${NAME}_$P.log 2>&1
  rc=$?
  echo "$NAME $P rc=$rc wall=$(( $(date +%s) - s ))s violations=$(grep -c '^VIOLATION' /tmp/seedchk_${NAME}_$P.log) inconclusive=$(grep -c '^INCONCLUSIVE' /tmp/seedchk_${NAME}_$P.log)"
done
git -C /repo worktree remove --force $WT >/dev/null 2>&1
