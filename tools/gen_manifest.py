#!/usr/bin/env python3
"""regenerates /verif/MANIFEST.json from props/C*.py and tools/not_applicable.json"""
import os, sys, json, glob, importlib
ROOT = os.path.dirname(os.path.dirname(os.path.abspath(__file__)))
sys.path.insert(0, ROOT)
checks = []
READY = json.load(open(os.path.join(ROOT, 'tools', 'ready.json')))
# properties whose thorough tier was run to completion on the unchanged tree; for the others the registered thorough command runs
# the validated quick tier (the deeper case lists stay in props/ and can be run with --tier thorough)
THOROUGH_OK = json.load(open(os.path.join(ROOT, 'tools', 'thorough_ok.json')))   # properties whose check is finished and passes on the unchanged tree
for f in sorted(glob.glob(os.path.join(ROOT, 'props', 'C*.py'))):
    pid = os.path.basename(f)[:-3]
    if pid not in READY: continue
    p = importlib.import_module('props.' + pid).PROPERTY
    checks.append({
        'property_id': pid,
        'quick_cmd': './check %s --tier quick' % pid,
        'thorough_cmd': './check %s --tier %s' % (pid, 'thorough' if pid in THOROUGH_OK else 'quick'),
        'evidence_file': 'evidence/%s.json' % pid,
        'replay_cmd_template': './check %s --replay {path}' % pid,
        'engine': 'll2c+cbmc',
        'level_claimed': {
            'category': 'other',
            'text': 'Bounded symbolic model checking of the real code (clang LLVM IR -> C -> CBMC, unwinding assertions on): ' + p.explanation + ' Bounds: ' + p.bounds,
            'design_ref': 'DESIGN.md section 7 (%s)' % pid,
        },
        'level_note': ('' if pid in THOROUGH_OK else 'NOTE: the deeper thorough case list of this property (props/%s.py) was not run to completion on the unchanged tree within the time available; the registered thorough command therefore runs the validated quick tier. ' % pid) + 'assumes: ' + '; '.join(p.assumptions) + '. outside the claim: ' + '; '.join(p.outside) + '. trusted: clang-14 -O1 lowering, ll2c translator (differentially validated each run), CBMC 6.11 + SAT back end, harness reference models/stubs.',
        'technique': 'bounded symbolic execution of the real code: LLVM IR -> C -> CBMC (SAT), case-split queries with unwinding assertions, counterexamples replayed on the g++ build',
    })
na_path = os.path.join(ROOT, 'tools', 'not_applicable.json')
na = json.load(open(na_path)) if os.path.exists(na_path) else []
claimed = {c['property_id'] for c in checks}
na = [n for n in na if n['property_id'] not in claimed]
all_ids = [json.loads(l)['id'] for l in open(os.path.join(ROOT, 'properties.jsonl'))]
for i in all_ids:
    if i not in claimed and i not in {n['property_id'] for n in na}:
        na.append({'property_id': i, 'reason': 'check not built yet in this phase of the work (breadth-first build in progress); no technical obstacle identified'})
m = {
    'version': 1,
    'setup_cmd': 'tools/setup.sh',
    'hooks': {'guard': 'BLUETOE_VERIF', 'enable': 'checks compile their shims with -DBLUETOE_VERIF; no guarded source changes exist in /repo', 'baseline_off_cmd': 'tools/run_baseline.sh',
              'source_commits': [], 'add_only': True},
    'engines': [{'name': 'll2c+cbmc', 'path': 'vf/', 'serves_properties': sorted(claimed),
                 'kind_free_text': 'clang-14 -O1 LLVM IR of shims instantiating the real templates -> C (vf/ll2c.py) -> goto-cc/cbmc 6.11 bounded model checking; native differential run and counterexample replay against the g++ ASan/UBSan build'}],
    'checks': checks,
    'not_applicable': na,
    'notes': 'Every check rebuilds the IR and the generated C from /repo working tree. Exit 0 property held within bounds, 1 VIOLATION (replayed on the real build), 2 inconclusive (timeout / translation validation mismatch / build failure). Fixes to /repo are unguarded "fix:" commits listed in known_findings.json.',
}
json.dump(m, open(os.path.join(ROOT, 'MANIFEST.json'), 'w'), indent=1)
print('MANIFEST: %d checks, %d not applicable' % (len(checks), len(na)))
